//! Static checker: decides whether the Go compiler would accept the program
//! (for the supported subset) and produces the side tables the interpreter
//! needs (`Info`).

mod call;
mod decls;
mod expr;
mod stmt;

use crate::ast::*;
use crate::consts::*;
use crate::types::*;
use std::collections::{HashMap, HashSet};

#[derive(Clone, Debug)]
pub struct VetError {
    pub kind: &'static str,
    pub line: u32,
    pub msg: String,
}

#[derive(Clone, Debug, Default)]
pub struct VetReport {
    pub errors: Vec<VetError>,
    /// non-empty => the verdict is inconclusive
    pub unsupported: Vec<String>,
}

impl VetReport {
    pub fn ok(&self) -> bool {
        self.errors.is_empty() && self.unsupported.is_empty()
    }
    pub fn has_kind(&self, kind: &str) -> bool {
        self.errors.iter().any(|e| e.kind == kind)
    }
}

#[derive(Clone, Copy, Debug, PartialEq, Eq, Hash)]
pub enum Builtin {
    Append,
    Cap,
    Len,
    Panic,
    Print,
    Println,
    New,
    Make,
    Copy,
    Delete,
    Min,
    Max,
    Clear,
    Close,
    Complex,
    Real,
    Imag,
    Recover,
}

#[derive(Clone, Copy, Debug, PartialEq, Eq, Hash)]
pub enum PkgFn {
    FmtPrint,
    FmtPrintln,
    FmtPrintf,
    FmtSprint,
    FmtSprintln,
    FmtSprintf,
    TimeUnix,
    TimeSleep,
    TimeNow,
    TimeSince,
}

#[derive(Clone, Debug, PartialEq)]
pub enum Res {
    Local(u32),
    Global(u32),
    Func(u32),
    Builtin(Builtin),
    Type(TypeId),
    /// constant (value in `Info::consts`) or nil
    Const,
    Nil,
    Package,
}

#[derive(Clone, Debug, PartialEq)]
pub enum SelKind {
    /// struct field; `deref` when the operand is a pointer to the struct
    Field { index: u32, deref: bool },
    /// statically bound method (value receiver); `deref` when the operand is a pointer
    Method { func: u32, deref: bool },
    /// method of an interface value
    IfaceMethod { name: String },
    PkgFunc(PkgFn),
    /// qualified constant / type (value in consts / type_exprs)
    PkgOther,
}

#[derive(Clone, Debug)]
pub struct FuncInfo {
    /// name as it appears in Go stack traces: `main.f` or `main.T.m`
    pub qual_name: String,
    pub name: String,
    /// index into `File::decls`
    pub decl: usize,
    pub sig: TypeId,
    pub recv: Option<TypeId>,
    /// number of parameters including the receiver
    pub nparams: u32,
    pub nlocals: u32,
    pub has_result: bool,
    pub line: u32,
}

#[derive(Clone, Debug)]
pub struct GlobalInfo {
    pub name: String,
    pub ty: TypeId,
    pub init: Option<ConstVal>,
}

#[derive(Clone, Debug, Default)]
pub struct Info {
    pub types: TypeTable,
    /// final type of every expression, indexed by node id
    pub expr_ty: Vec<TypeId>,
    /// final constant value of constant expressions
    pub consts: HashMap<NodeId, ConstVal>,
    pub res: HashMap<NodeId, Res>,
    pub sels: HashMap<NodeId, SelKind>,
    /// type denoted by type-denoting nodes (TypeExpr ids and expression ids)
    pub type_exprs: HashMap<NodeId, TypeId>,
    pub funcs: Vec<FuncInfo>,
    pub globals: Vec<GlobalInfo>,
    /// declaring identifier id -> local slot
    pub decl_slots: HashMap<NodeId, u32>,
    /// type switch clause id -> (slot, type) of the bound variable
    pub clause_bind: HashMap<NodeId, (u32, TypeId)>,
    /// hidden slot per statement id (type switch subject, switch tag)
    pub stmt_slots: HashMap<NodeId, u32>,
    pub main_func: Option<u32>,
    pub init_funcs: Vec<u32>,
    /// accepted by the checker but not executable by the interpreter
    pub run_unsupported: Vec<String>,
}

#[derive(Clone, Debug)]
pub(crate) enum Obj {
    Var { ty: TypeId, res: Res, line: u32, name: String },
    Func { idx: u32 },
    TypeName { ty: TypeId },
    /// alias or named type not yet resolved: index into decls
    LazyType { decl: usize },
    Const { val: ConstVal, ty: TypeId },
    Nil,
    Builtin(Builtin),
    Package { name: String, import_idx: usize },
    Iota,
}

#[derive(Clone, Copy, Debug, PartialEq)]
pub(crate) enum Mode {
    Invalid,
    NoValue,
    Builtin(Builtin),
    Type,
    Const,
    Var,
    Value,
    Nil,
    Pkg,
    PkgFn(PkgFn),
    /// call producing several values
    Multi,
}

#[derive(Clone, Debug)]
pub(crate) struct Operand {
    pub mode: Mode,
    pub ty: TypeId,
    pub val: Option<ConstVal>,
    pub id: NodeId,
    pub line: u32,
}

impl Operand {
    pub fn invalid(id: NodeId, line: u32) -> Operand {
        Operand { mode: Mode::Invalid, ty: T_INVALID, val: None, id, line }
    }
    pub fn is_invalid(&self) -> bool {
        self.mode == Mode::Invalid
    }
    pub fn is_value(&self) -> bool {
        matches!(self.mode, Mode::Const | Mode::Var | Mode::Value | Mode::Nil)
    }
}

pub(crate) struct FuncCtx {
    pub results: Vec<TypeId>,
    pub nlocals: u32,
    /// all names declared anywhere in the body (for use-before-decl)
    pub declared_names: HashSet<String>,
    /// local variable objects for the unused check
    pub locals: Vec<usize>,
    pub loop_depth: u32,
    pub breakable_depth: u32,
}

pub(crate) struct Checker<'a> {
    pub file: &'a File,
    pub info: Info,
    pub errors: Vec<VetError>,
    pub unsupported: Vec<String>,
    pub objs: Vec<Obj>,
    pub used: Vec<bool>,
    pub universe: HashMap<String, usize>,
    pub pkg_scope: HashMap<String, usize>,
    pub file_scope: HashMap<String, usize>,
    pub scopes: Vec<HashMap<String, usize>>,
    pub import_used: Vec<bool>,
    pub resolving: HashSet<usize>,
    pub fctx: Option<FuncCtx>,
    pub t_any: TypeId,
    pub t_error: TypeId,
    pub t_time: TypeId,
    pub t_duration: TypeId,
    pub t_unit: TypeId,
    /// decl index -> func index
    pub func_of_decl: HashMap<usize, u32>,
    /// calls to the predeclared panic (for the terminating statement rule)
    pub panic_calls: HashSet<NodeId>,
    pub pending_named: Vec<(TypeId, usize)>,
}

pub(crate) const FMT_NAMES: &[&str] = &[
    "Append", "Appendf", "Appendln", "Errorf", "Formatter", "FormatString", "Fprint", "Fprintf", "Fprintln", "Fscan", "Fscanf", "Fscanln",
    "GoStringer", "Print", "Printf", "Println", "Scan", "ScanState", "Scanf", "Scanln", "Scanner", "Sprint", "Sprintf", "Sprintln", "Sscan",
    "Sscanf", "Sscanln", "State", "Stringer",
];

pub(crate) const STD_PKGS: &[&str] = &[
    "fmt", "time", "strings", "strconv", "os", "math", "sort", "errors", "bytes", "io", "sync", "unicode", "utf8", "rand", "bufio", "reflect",
    "runtime", "unsafe", "context", "json", "http", "log", "regexp", "atomic", "filepath", "path", "big", "bits", "slices", "maps", "cmp",
];

pub fn check(file: &File) -> (VetReport, Info) {
    let mut c = Checker::new(file);
    c.check_file();
    let report = VetReport { errors: c.errors, unsupported: c.unsupported };
    (report, c.info)
}

impl<'a> Checker<'a> {
    fn new(file: &'a File) -> Checker<'a> {
        let mut info = Info::default();
        info.expr_ty = vec![T_INVALID; file.node_count as usize + 1];
        let mut c = Checker {
            file,
            info,
            errors: Vec::new(),
            unsupported: Vec::new(),
            objs: Vec::new(),
            used: Vec::new(),
            universe: HashMap::new(),
            pkg_scope: HashMap::new(),
            file_scope: HashMap::new(),
            scopes: Vec::new(),
            import_used: Vec::new(),
            resolving: HashSet::new(),
            fctx: None,
            t_any: 0,
            t_error: 0,
            t_time: 0,
            t_duration: 0,
            t_unit: 0,
            func_of_decl: HashMap::new(),
            panic_calls: HashSet::new(),
            pending_named: Vec::new(),
        };
        c.setup_universe();
        c
    }

    pub(crate) fn err(&mut self, kind: &'static str, line: u32, msg: impl Into<String>) {
        self.errors.push(VetError { kind, line, msg: msg.into() });
    }

    pub(crate) fn unsup(&mut self, line: u32, what: impl Into<String>) {
        self.unsupported.push(format!("line {}: {}", line, what.into()));
    }

    pub(crate) fn run_unsup(&mut self, line: u32, what: impl Into<String>) {
        self.info.run_unsupported.push(format!("line {}: {}", line, what.into()));
    }

    pub(crate) fn new_obj(&mut self, o: Obj) -> usize {
        self.objs.push(o);
        self.used.push(false);
        self.objs.len() - 1
    }

    fn setup_universe(&mut self) {
        let tt = &mut self.info.types;
        let basics: Vec<(&str, Ty)> = vec![
            ("bool", Ty::Bool),
            ("string", Ty::Str),
            ("int", Ty::Int(IntK::Int)),
            ("int8", Ty::Int(IntK::I8)),
            ("int16", Ty::Int(IntK::I16)),
            ("int32", Ty::Int(IntK::I32)),
            ("int64", Ty::Int(IntK::I64)),
            ("uint", Ty::Int(IntK::Uint)),
            ("uint8", Ty::Int(IntK::U8)),
            ("uint16", Ty::Int(IntK::U16)),
            ("uint32", Ty::Int(IntK::U32)),
            ("uint64", Ty::Int(IntK::U64)),
            ("uintptr", Ty::Int(IntK::Uintptr)),
            ("float32", Ty::F32),
            ("float64", Ty::F64),
            ("complex64", Ty::C64),
            ("complex128", Ty::C128),
            ("byte", Ty::Int(IntK::U8)),
            ("rune", Ty::Int(IntK::I32)),
        ];
        let mut entries: Vec<(String, Obj)> = Vec::new();
        for (n, ty) in basics {
            let id = tt.mk(ty);
            entries.push((n.to_string(), Obj::TypeName { ty: id }));
        }
        let any = tt.mk(Ty::Interface(Vec::new()));
        self.t_any = any;
        entries.push(("any".to_string(), Obj::TypeName { ty: any }));
        // error
        let err_sig = tt.mk(Ty::Func(vec![], vec![T_STRING]));
        let err_iface = tt.mk(Ty::Interface(vec![("Error".to_string(), err_sig)]));
        let err_named = tt.new_named("error", "");
        if let Ty::Named(n) = tt.get(err_named).clone() {
            tt.named[n as usize].underlying = err_iface;
        }
        self.t_error = err_named;
        entries.push(("error".to_string(), Obj::TypeName { ty: err_named }));
        // comparable is only usable as a constraint
        self.t_unit = tt.mk(Ty::Struct(Vec::new()));
        // time types
        let dur = tt.new_named("Duration", "time");
        if let Ty::Named(n) = tt.get(dur).clone() {
            tt.named[n as usize].underlying = T_INT64;
        }
        let opaque = tt.mk(Ty::Opaque("time.Time".to_string()));
        let tim = tt.new_named("Time", "time");
        if let Ty::Named(n) = tt.get(tim).clone() {
            tt.named[n as usize].underlying = opaque;
        }
        self.t_duration = dur;
        self.t_time = tim;
        entries.push(("true".to_string(), Obj::Const { val: ConstVal::Bool(true), ty: T_UBOOL }));
        entries.push(("false".to_string(), Obj::Const { val: ConstVal::Bool(false), ty: T_UBOOL }));
        entries.push(("nil".to_string(), Obj::Nil));
        entries.push(("iota".to_string(), Obj::Iota));
        let builtins = [
            ("append", Builtin::Append),
            ("cap", Builtin::Cap),
            ("len", Builtin::Len),
            ("panic", Builtin::Panic),
            ("print", Builtin::Print),
            ("println", Builtin::Println),
            ("new", Builtin::New),
            ("make", Builtin::Make),
            ("copy", Builtin::Copy),
            ("delete", Builtin::Delete),
            ("min", Builtin::Min),
            ("max", Builtin::Max),
            ("clear", Builtin::Clear),
            ("close", Builtin::Close),
            ("complex", Builtin::Complex),
            ("real", Builtin::Real),
            ("imag", Builtin::Imag),
            ("recover", Builtin::Recover),
        ];
        for (n, b) in builtins {
            entries.push((n.to_string(), Obj::Builtin(b)));
        }
        for (n, o) in entries {
            let id = self.new_obj(o);
            self.universe.insert(n, id);
        }
    }

    // ------------------------------------------------------------- scopes

    pub(crate) fn lookup(&self, name: &str) -> Option<usize> {
        for s in self.scopes.iter().rev() {
            if let Some(&o) = s.get(name) {
                return Some(o);
            }
        }
        if let Some(&o) = self.pkg_scope.get(name) {
            return Some(o);
        }
        if let Some(&o) = self.file_scope.get(name) {
            return Some(o);
        }
        self.universe.get(name).copied()
    }

    pub(crate) fn push_scope(&mut self) {
        self.scopes.push(HashMap::new());
    }
    pub(crate) fn pop_scope(&mut self) {
        self.scopes.pop();
    }

    /// Declares a local variable in the innermost scope; returns its slot.
    pub(crate) fn declare_local(&mut self, id: &Ident, ty: TypeId, is_param: bool) -> u32 {
        let slot = {
            let f = self.fctx.as_mut().expect("function context");
            let s = f.nlocals;
            f.nlocals += 1;
            s
        };
        self.info.decl_slots.insert(id.id, slot);
        if id.name == "_" {
            return slot;
        }
        if let Some(scope) = self.scopes.last() {
            if let Some(&prev) = scope.get(&id.name) {
                let pl = match &self.objs[prev] {
                    Obj::Var { line, .. } => *line,
                    _ => 0,
                };
                self.err("redeclared", id.line, format!("{} redeclared in this block (other declaration at line {})", id.name, pl));
                return slot;
            }
        }
        let o = self.new_obj(Obj::Var { ty, res: Res::Local(slot), line: id.line, name: id.name.clone() });
        if !is_param {
            self.fctx.as_mut().unwrap().locals.push(o);
        }
        self.scopes.last_mut().unwrap().insert(id.name.clone(), o);
        slot
    }

    pub(crate) fn hidden_slot(&mut self) -> u32 {
        let f = self.fctx.as_mut().expect("function context");
        let s = f.nlocals;
        f.nlocals += 1;
        s
    }

    // --------------------------------------------------------------- file

    fn check_file(&mut self) {
        let file = self.file;
        if file.package.name != "main" {
            self.unsup(file.package.line, format!("package {} (only package main is supported)", file.package.name));
        }
        // imports
        for (i, imp) in file.imports.iter().enumerate() {
            self.import_used.push(false);
            let base = imp.path.rsplit('/').next().unwrap_or("").to_string();
            let name = match &imp.alias {
                Some(a) if a.name == "_" => {
                    self.unsup(imp.line, "blank import");
                    continue;
                }
                Some(a) => a.name.clone(),
                None => base.clone(),
            };
            if imp.path != "fmt" && imp.path != "time" {
                self.unsup(imp.line, format!("import of package {:?}", imp.path));
            }
            if self.file_scope.contains_key(&name) {
                self.err("redeclared", imp.line, format!("{} redeclared in this block (import)", name));
                continue;
            }
            let o = self.new_obj(Obj::Package { name: imp.path.clone(), import_idx: i });
            self.file_scope.insert(name, o);
        }
        // collect package level names
        let mut nfuncs: u32 = 0;
        for (di, d) in file.decls.iter().enumerate() {
            match d {
                Decl::Func(f) => {
                    let idx = nfuncs;
                    nfuncs += 1;
                    self.func_of_decl.insert(di, idx);
                    self.info.funcs.push(FuncInfo {
                        qual_name: format!("main.{}", f.name.name),
                        name: f.name.name.clone(),
                        decl: di,
                        sig: T_INVALID,
                        recv: None,
                        nparams: 0,
                        nlocals: 0,
                        has_result: false,
                        line: f.line,
                    });
                    if f.recv.is_some() {
                        continue;
                    }
                    if f.name.name == "init" {
                        self.info.init_funcs.push(idx);
                        continue;
                    }
                    if f.name.name == "_" {
                        continue;
                    }
                    let o = self.new_obj(Obj::Func { idx });
                    self.declare_pkg(&f.name, o);
                    if f.name.name == "main" {
                        self.info.main_func = Some(idx);
                    }
                }
                Decl::Type(t) => {
                    if t.name.name == "_" {
                        continue;
                    }
                    if t.name.name == "init" || t.name.name == "main" {
                        self.err("bad-main", t.line, format!("cannot declare {} - must be func", t.name.name));
                        continue;
                    }
                    let o = self.new_obj(Obj::LazyType { decl: di });
                    self.declare_pkg(&t.name, o);
                }
                Decl::Var(v) => {
                    for n in &v.names {
                        if n.name == "_" {
                            continue;
                        }
                        if n.name == "init" || n.name == "main" {
                            self.err("bad-main", v.line, format!("cannot declare {} - must be func", n.name));
                            continue;
                        }
                        let gidx = self.info.globals.len() as u32;
                        self.info.globals.push(GlobalInfo { name: n.name.clone(), ty: T_INVALID, init: None });
                        let o = self.new_obj(Obj::Var { ty: T_INVALID, res: Res::Global(gidx), line: n.line, name: n.name.clone() });
                        self.info.res.insert(n.id, Res::Global(gidx));
                        self.declare_pkg(n, o);
                    }
                }
            }
        }
        // resolve all type declarations
        for (di, d) in file.decls.iter().enumerate() {
            if let Decl::Type(t) = d {
                if let Some(&o) = self.pkg_scope.get(&t.name.name) {
                    if matches!(self.objs[o], Obj::LazyType { decl } if decl == di) {
                        self.resolve_lazy(o);
                    }
                } else if t.name.name == "_" {
                    self.unsup(t.line, "blank type declaration");
                }
            }
        }
        // complete underlying types of named types (bodies may refer to each other)
        self.complete_named_types();
        // function signatures and methods
        for (di, d) in file.decls.iter().enumerate() {
            if let Decl::Func(f) = d {
                self.declare_func_sig(di, f);
            }
        }
        self.check_recursive_types();
        // global variables
        for d in file.decls.iter() {
            if let Decl::Var(v) = d {
                self.check_global_var(v);
            }
        }
        // bodies
        for (di, d) in file.decls.iter().enumerate() {
            if let Decl::Func(f) = d {
                self.check_func_body(di, f);
            }
        }
        // unused imports
        for (i, imp) in file.imports.iter().enumerate() {
            if let Some(a) = &imp.alias {
                if a.name == "_" {
                    continue;
                }
            }
            if !self.import_used.get(i).copied().unwrap_or(true) {
                self.err("unused-import", imp.line, format!("{:?} imported and not used", imp.path));
            }
        }
        if file.package.name == "main" && self.info.main_func.is_none() {
            self.err("missing-main", file.package.line, "function main is undeclared in the main package");
        }
    }

    fn declare_pkg(&mut self, id: &Ident, o: usize) {
        if self.pkg_scope.contains_key(&id.name) {
            self.err("redeclared", id.line, format!("{} redeclared in this block", id.name));
            return;
        }
        if self.file_scope.contains_key(&id.name) {
            self.err("redeclared", id.line, format!("{} already declared through import of package", id.name));
            return;
        }
        self.pkg_scope.insert(id.name.clone(), o);
    }

    // -------------------------------------------------------------- types

    /// Pending named type bodies: (type id, decl index)
    pub(crate) fn resolve_lazy(&mut self, o: usize) -> TypeId {
        let decl = match &self.objs[o] {
            Obj::LazyType { decl } => *decl,
            Obj::TypeName { ty } => return *ty,
            _ => return T_INVALID,
        };
        let td = match &self.file.decls[decl] {
            Decl::Type(t) => t,
            _ => return T_INVALID,
        };
        if td.alias {
            if !self.resolving.insert(o) {
                self.err("invalid-recursive-type", td.line, format!("invalid recursive type {}", td.name.name));
                self.objs[o] = Obj::TypeName { ty: T_INVALID };
                return T_INVALID;
            }
            let saved_scopes = std::mem::take(&mut self.scopes);
            let ty = self.resolve_type(&td.ty);
            self.scopes = saved_scopes;
            self.resolving.remove(&o);
            self.objs[o] = Obj::TypeName { ty };
            ty
        } else {
            // allocate the named type now; its underlying type is completed
            // later by complete_named_types
            let ty = self.info.types.new_named(&td.name.name, "main");
            self.objs[o] = Obj::TypeName { ty };
            self.pending_named.push((ty, decl));
            ty
        }
    }
}
