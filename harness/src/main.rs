//! goml-verif: runtime-monitoring harness for lijunchen/goml (see /verif/DESIGN.md).
mod capi;
mod dbg;
mod diff;
mod exec;
mod gl;
mod goexec;
mod goldens;
mod irmon;
mod mutators;
mod projdrv;
mod reduce;
mod projgen;
mod props;
mod runner;
mod util;

use runner::{PropSpec, Tier, WorkerArgs};

fn registry() -> Vec<&'static PropSpec> {
    props::all()
}

fn find(id: &str) -> &'static PropSpec {
    for p in registry() {
        if p.id == id {
            return p;
        }
    }
    eprintln!("unknown property {}", id);
    std::process::exit(2);
}

fn main() {
    let args: Vec<String> = std::env::args().collect();
    if args.len() < 2 {
        eprintln!("usage: goml-verif run <ID> <quick|thorough> [--replay file] | list");
        std::process::exit(2);
    }
    match args[1].as_str() {
        "reduce" => std::process::exit(reduce::main(&args[2..])),
        "hover-all" => {
            // developer aid: hover at every token start of a file
            let src = std::fs::read_to_string(&args[2]).unwrap_or_default();
            let path = std::path::Path::new(&args[2]);
            let mut line = 0u32;
            let mut col = 0u32;
            for t in lexer::lex(&src) {
                if !t.kind.is_trivia() {
                    let h = compiler::query::hover_type(path, &src, line, col);
                    println!("{}:{} `{}` => {:?}", line, col, t.text.replace('\n', " "), h);
                }
                for ch in t.text.chars() {
                    if ch == '\n' {
                        line += 1;
                        col = 0;
                    } else {
                        col += 1;
                    }
                }
            }
        }
        "debug-gen" => std::process::exit(dbg::main(&args[2..])),
        "goldens" => std::process::exit(goldens::main()),
        "observe" => {
            runner::install_panic_hook();
            std::process::exit(projdrv::observe_main(&runner::path_arg(&args[2]), &runner::path_arg(&args[3])));
        }
        "list" => {
            for p in registry() {
                println!("{}", p.id);
            }
        }
        "run" => {
            let spec = find(&args[2]);
            let tier = Tier::parse(args.get(3).map(|s| s.as_str()).unwrap_or("quick")).unwrap_or(Tier::Quick);
            let seed = util::env_u64("VERIF_SEED", 1);
            let mut replay = None;
            let mut i = 4;
            while i < args.len() {
                if args[i] == "--replay" && i + 1 < args.len() {
                    replay = Some(runner::path_arg(&args[i + 1]));
                    i += 1;
                }
                i += 1;
            }
            let code = runner::run_property(spec, tier, seed, replay);
            std::process::exit(code);
        }
        "worker" => {
            // worker <ID> <tier> <seed> <shard> <nshards> <skip> <dir> [replay]
            let spec = find(&args[2]);
            let wa = WorkerArgs {
                tier: Tier::parse(&args[3]).unwrap(),
                seed: args[4].parse().unwrap(),
                shard: args[5].parse().unwrap(),
                nshards: args[6].parse().unwrap(),
                skip: args[7].parse().unwrap(),
                dir: runner::path_arg(&args[8]),
                replay: args.get(9).map(|s| runner::path_arg(s)),
            };
            let code = runner::worker_main(spec, wa);
            std::process::exit(code);
        }
        other => {
            eprintln!("unknown command {}", other);
            std::process::exit(2);
        }
    }
}
