//! compile + vet + run of a source text whose expected behaviour the caller knows (shared by C11, C18, ...)
use crate::goexec::{self, Term, Vet};
use crate::runner::{self, Case};
use crate::{capi, util};
use serde_json::json;

/// returns (stdout, termination, stderr); rejections / invalid Go are violations `<prop>:program-rejected:..` / `<prop>:invalid-go:..`
pub fn run_source(case: &mut Case, prop: &str, label: &str, src: &str, budget: u64) -> Option<(String, Term, String)> {
    runner::note_input(src);
    let go = match runner::guard(|| capi::compile_single(src).map(|c| capi::go_text(&c))) {
        Ok(Ok(g)) => g,
        Ok(Err(e)) => {
            case.violation(
                format!("{}:program-rejected:{}", prop, crate::diff::msg_class(&capi::err_messages(&e).first().cloned().unwrap_or_default())),
                format!("a well-formed program is rejected: {}", util::truncate(&capi::err_messages(&e).join("; "), 200)),
                json!({"label": label, "source": util::truncate(src, 6000)}),
            );
            return None;
        }
        Err(p) => {
            // the callers' programs are valid by construction: a crash is a violation of their property too
            case.violation(
                format!("{}:compiler-crash-on-valid-program:{}", prop, crate::diff::msg_class(&p.site)),
                format!("a program that is valid by construction makes the compiler crash at {}: {}", p.site, util::truncate(&p.message, 160)),
                json!({"label": label, "source": util::truncate(src, 8000)}),
            );
            return None;
        }
    };
    let gp = goexec::parse(&go);
    match goexec::vet(&gp) {
        Vet::Accept => {}
        Vet::Unsupported(u) => {
            case.inconclusive(format!("gomini vet unsupported: {}", u));
            return None;
        }
        Vet::Reject(errs) => {
            let go_line = go.lines().nth((errs[0].1 as usize).saturating_sub(1)).unwrap_or("").trim().to_string();
            case.violation(
                format!("{}:invalid-go:{}:{}", prop, errs[0].0, crate::props::c02::line_shape(&go_line)),
                format!("program yields invalid Go: [{}] {} at `{}`", errs[0].0, util::truncate(&errs[0].2, 160), util::truncate(&go_line, 120)),
                json!({"label": label, "source": util::truncate(src, 6000), "go_line": go_line}),
            );
            return None;
        }
    }
    let r = goexec::run(&gp, budget, gomini::Sched::Deterministic);
    case.count("programs_run", 1);
    match &r.term {
        Term::Unsupported(u) => {
            case.inconclusive(format!("gomini run unsupported: {}", u));
            None
        }
        Term::Budget => {
            case.inconclusive("gomini budget");
            None
        }
        _ => Some((r.stdout.clone(), r.term.clone(), r.stderr)),
    }
}

/// the same for a multi-package project given as (relative path, text) files; `main.gom` is the entry file
pub fn run_project(case: &mut Case, prop: &str, label: &str, files: &[(std::path::PathBuf, String)], budget: u64) -> Option<(String, Term, String)> {
    let srcs: String = files.iter().map(|(p, t)| format!("// ---- {}\n{}\n", p.display(), t)).collect();
    runner::note_input(&srcs);
    let root = util::scratch_base().join(format!("proj-{}-{}", std::process::id(), util::hex64(util::hash_str(&format!("{}{}", label, srcs)))));
    let _ = std::fs::remove_dir_all(&root);
    let order: Vec<usize> = (0..files.len()).collect();
    if crate::projgen::materialize(&root, files, &order).is_err() {
        case.inconclusive("cannot materialise project");
        return None;
    }
    let whole = runner::guard(|| crate::projdrv::observe_whole(&root));
    let _ = std::fs::remove_dir_all(&root);
    let whole = match whole {
        Ok(o) => o,
        Err(p) => {
            case.violation(
                format!("{}:compiler-crash-on-valid-program:{}", prop, crate::diff::msg_class(&p.site)),
                format!("a project that is valid by construction makes the compiler crash at {}: {}", p.site, util::truncate(&p.message, 160)),
                json!({"label": label, "sources": util::truncate(&srcs, 8000)}),
            );
            return None;
        }
    };
    if whole.get("whole/result").map_or(true, |r| r != "ok") {
        let d = whole.get("whole/diagnostics").cloned().unwrap_or_default();
        let first = d.lines().nth(1).unwrap_or("").split('|').last().unwrap_or("").to_string();
        case.violation(
            format!("{}:program-rejected:{}", prop, crate::diff::msg_class(&first)),
            format!("a well-formed project is rejected: {}", util::truncate(&d, 300)),
            json!({"label": label, "diagnostics": d, "sources": util::truncate(&srcs, 8000)}),
        );
        return None;
    }
    let go = whole.get("whole/dump/go")?.clone();
    let gp = goexec::parse(&go);
    match goexec::vet(&gp) {
        Vet::Accept => {}
        Vet::Unsupported(u) => {
            case.inconclusive(format!("gomini vet unsupported: {}", u));
            return None;
        }
        Vet::Reject(errs) => {
            let go_line = go.lines().nth((errs[0].1 as usize).saturating_sub(1)).unwrap_or("").trim().to_string();
            case.violation(
                format!("{}:invalid-go:{}:{}", prop, errs[0].0, crate::props::c02::line_shape(&go_line)),
                format!("project yields invalid Go: [{}] {} at `{}`", errs[0].0, util::truncate(&errs[0].2, 160), util::truncate(&go_line, 120)),
                json!({"label": label, "sources": util::truncate(&srcs, 8000), "go_line": go_line}),
            );
            return None;
        }
    }
    let r = goexec::run(&gp, budget, gomini::Sched::Deterministic);
    case.count("programs_run", 1);
    match &r.term {
        Term::Unsupported(u) => {
            case.inconclusive(format!("gomini run unsupported: {}", u));
            None
        }
        Term::Budget => {
            case.inconclusive("gomini budget");
            None
        }
        _ => Some((r.stdout.clone(), r.term.clone(), r.stderr)),
    }
}
