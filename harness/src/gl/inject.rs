//! Single-point type-error injection into well-typed GL programs (for C03).
//! Sites are positions whose expected type is syntactically known: arguments of calls to named
//! functions, struct-literal fields, annotated lets, function results, `if` conditions.
use super::ast::*;
use crate::util::Rng;

#[derive(Clone, Debug)]
pub struct Injection {
    pub kind: &'static str,
    pub description: String,
}

fn is_prim(t: &Ty) -> bool {
    matches!(t, Ty::Unit | Ty::Bool | Ty::Int(_) | Ty::Str)
}

/// an expression whose type is certainly not `t` (t primitive or tuple)
fn wrong_value(t: &Ty, rng: &mut Rng, prog: &Program) -> Option<(Expr, String)> {
    match t {
        // a trait object of ANOTHER trait (a block whose annotated let makes the value a `dyn Other` first), or a
        // value of a type that has no impl of the trait
        Ty::Dyn(tr) => {
            let mut others: Vec<(String, Expr)> = Vec::new();
            let mut implemented_for_unit = false;
            for it in &prog.items {
                if let Item::Impl(im) = it {
                    let Some(tn) = &im.trait_name else { continue };
                    if tn == tr {
                        if im.for_ty == Ty::Unit {
                            implemented_for_unit = true;
                        }
                        continue;
                    }
                    let lit = match &im.for_ty {
                        Ty::Int(IntTy::I32) => Expr::Int(IntTy::I32, 1, false),
                        Ty::Bool => Expr::Bool(true),
                        Ty::Str => Expr::Str("s".into()),
                        _ => continue,
                    };
                    others.push((tn.clone(), lit));
                }
            }
            if !others.is_empty() && (implemented_for_unit || rng.chance(2, 3)) {
                let (other, lit) = rng.pick_ref(&others).clone();
                let blk = Expr::Block(vec![Stmt::Let(Pat::Var("wrongdyn".into()), Some(Ty::Dyn(other.clone())), Expr::ToDyn(other.clone(), Box::new(lit)))], Some(Box::new(Expr::Var("wrongdyn".into()))));
                Some((blk, format!("a dyn {} value where dyn {} is expected", other, tr)))
            } else if !implemented_for_unit {
                Some((Expr::Unit, format!("unit (no impl of {}) where dyn {} is expected", tr, tr)))
            } else {
                None
            }
        }
        // besides values of another type: a prefix operator applied to an operand of the wrong kind, written directly in
        // the checked position (`let m: int32 = !5`, `f(-true)`): the expected type must not make the operator fit
        // (added after a seeded change that let `!` through wherever a numeric type is expected)
        Ty::Bool => match rng.below(3) {
            0 => Some((Expr::Unary(UnOp::Neg, Box::new(Expr::Bool(true))), "`-true` where bool is expected".into())),
            1 => Some((Expr::Unary(UnOp::Not, Box::new(Expr::Int(IntTy::I32, 1, false))), "`!1` where bool is expected".into())),
            _ => Some((Expr::Str("notbool".into()), "string where bool is expected".into())),
        },
        Ty::Str => match rng.below(3) {
            0 => Some((Expr::Unary(UnOp::Not, Box::new(Expr::Str("s".into()))), "`!\"s\"` where string is expected".into())),
            _ => Some((Expr::Bool(true), "bool where string is expected".into())),
        },
        Ty::Int(it) => match rng.below(4) {
            0 => Some((Expr::Str("notint".into()), "string where an integer is expected".into())),
            1 => Some((Expr::Unary(UnOp::Not, Box::new(Expr::Int(*it, 1, *it != IntTy::I32))), format!("`!1` at {} where an integer is expected", Ty::Int(*it).src()))),
            2 => Some((Expr::Unary(UnOp::Neg, Box::new(Expr::Bool(true))), "`-true` where an integer is expected".into())),
            _ => Some((Expr::Bool(false), "bool where an integer is expected".into())),
        },
        Ty::Unit => Some((Expr::Str("notunit".into()), "string where unit is expected".into())),
        Ty::Struct(..) | Ty::Enum(..) | Ty::Vec(_) | Ty::Ref(_) | Ty::Array(..) => Some((Expr::Bool(true), format!("bool where {} is expected", t.src()))),
        Ty::Tuple(ts) if ts.iter().all(is_prim) => {
            // a tuple with one more / one fewer component (each component well-typed)
            let mk = |t: &Ty| -> Expr {
                match t {
                    Ty::Bool => Expr::Bool(true),
                    Ty::Str => Expr::Str("s".into()),
                    Ty::Int(it) => Expr::Int(*it, 1, *it != IntTy::I32),
                    _ => Expr::Unit,
                }
            };
            let mut items: Vec<Expr> = ts.iter().map(mk).collect();
            if rng.bool() || items.len() <= 2 {
                items.push(Expr::Str("extra".into()));
                Some((Expr::Tuple(items), format!("tuple with {} components where {} is expected", ts.len() + 1, t.src())))
            } else {
                items.pop();
                Some((Expr::Tuple(items), format!("tuple with {} components where {} is expected", ts.len() - 1, t.src())))
            }
        }
        _ => None,
    }
}

struct Walker<'a> {
    prog: &'a Program,
    target: usize,
    seen: usize,
    rng: &'a mut Rng,
    done: Option<Injection>,
    count_only: bool,
}

impl<'a> Walker<'a> {
    /// visit a site with a known expected type; returns a replacement when this is the target
    fn site(&mut self, expected: &Ty, kind: &'static str, what: &str) -> Option<Expr> {
        if expected.has_param() {
            return None;
        }
        // only sites we can certainly break
        let mut probe = Rng::new(0);
        if wrong_value(expected, &mut probe, self.prog).is_none() {
            return None;
        }
        let idx = self.seen;
        self.seen += 1;
        if self.count_only || idx != self.target || self.done.is_some() {
            return None;
        }
        let (e, d) = wrong_value(expected, self.rng, self.prog)?;
        self.done = Some(Injection { kind, description: format!("{}: {}", what, d) });
        Some(e)
    }

    fn stmt(&mut self, s: &Stmt) -> Stmt {
        match s {
            Stmt::Let(p, Some(t), e) => {
                if let Some(r) = self.site(t, "annotated-let", &format!("let {}: {}", print_pat(p), t.src())) {
                    return Stmt::Let(p.clone(), Some(t.clone()), r);
                }
                Stmt::Let(p.clone(), Some(t.clone()), self.expr(e))
            }
            Stmt::Let(p, None, e) => Stmt::Let(p.clone(), None, self.expr(e)),
            Stmt::Expr(e) => Stmt::Expr(self.expr(e)),
        }
    }

    fn exprs(&mut self, es: &[Expr]) -> Vec<Expr> {
        es.iter().map(|e| self.expr(e)).collect()
    }

    fn expr(&mut self, e: &Expr) -> Expr {
        match e {
            Expr::Call { name, targs, args } => {
                let decl = self.prog.find_fn(name).cloned();
                let mut new_args = Vec::new();
                for (i, a) in args.iter().enumerate() {
                    if let Some(d) = &decl {
                        if d.tparams.is_empty() {
                            if let Some(r) = self.site(&d.params[i].1, "call-argument", &format!("argument {} of {}", i, name)) {
                                new_args.push(r);
                                continue;
                            }
                        }
                    }
                    new_args.push(self.expr(a));
                }
                // arity injection
                if let Some(d) = &decl {
                    if d.tparams.is_empty() {
                        let idx = self.seen;
                        self.seen += 1;
                        if !self.count_only && idx == self.target && self.done.is_none() {
                            if self.rng.bool() || new_args.is_empty() {
                                new_args.push(Expr::Int(IntTy::I32, 7, false));
                                self.done = Some(Injection { kind: "extra-argument", description: format!("extra argument in call of {}", name) });
                            } else {
                                new_args.pop();
                                self.done = Some(Injection { kind: "missing-argument", description: format!("missing argument in call of {}", name) });
                            }
                        }
                    }
                }
                Expr::Call { name: name.clone(), targs: targs.clone(), args: new_args }
            }
            Expr::StructLit { name, ty, fields } => {
                let decl = self.prog.find_struct(name).cloned();
                let mut nf = Vec::new();
                for (f, x) in fields {
                    if let (Some(d), Ty::Struct(_, targs)) = (&decl, ty) {
                        let m: Vec<(String, Ty)> = d.tparams.iter().cloned().zip(targs.iter().cloned()).collect();
                        if let Some((_, ft)) = d.fields.iter().find(|(n, _)| n == f) {
                            // generic fields determine the instance: only break non-generic ones
                            if !ft.has_param() {
                                if let Some(r) = self.site(&ft.subst(&m), "struct-field", &format!("field {} of {}", f, name)) {
                                    nf.push((f.clone(), r));
                                    continue;
                                }
                            }
                        }
                    }
                    nf.push((f.clone(), self.expr(x)));
                }
                // unknown field
                let idx = self.seen;
                self.seen += 1;
                if !self.count_only && idx == self.target && self.done.is_none() {
                    nf.push(("no_such_field".into(), Expr::Int(IntTy::I32, 1, false)));
                    self.done = Some(Injection { kind: "unknown-field", description: format!("unknown field in literal of {}", name) });
                }
                Expr::StructLit { name: name.clone(), ty: ty.clone(), fields: nf }
            }
            Expr::If(c, t, f) => {
                if let Some(r) = self.site(&Ty::Bool, "if-condition", "condition of if") {
                    return Expr::If(Box::new(r), t.clone(), f.clone());
                }
                Expr::If(Box::new(self.expr(c)), Box::new(self.expr(t)), Box::new(self.expr(f)))
            }
            Expr::Tuple(es) => Expr::Tuple(self.exprs(es)),
            Expr::Array(es) => Expr::Array(self.exprs(es)),
            Expr::Constr { enum_name, variant, ty, args, qualified } => Expr::Constr { enum_name: enum_name.clone(), variant: variant.clone(), ty: ty.clone(), args: self.exprs(args), qualified: *qualified },
            Expr::Field(x, f) => Expr::Field(Box::new(self.expr(x)), f.clone()),
            Expr::Proj(x, i) => Expr::Proj(Box::new(self.expr(x)), *i),
            Expr::Unary(op, x) => Expr::Unary(*op, Box::new(self.expr(x))),
            Expr::Binary(op, l, r) => Expr::Binary(*op, Box::new(self.expr(l)), Box::new(self.expr(r))),
            Expr::While(c, b) => Expr::While(Box::new(self.expr(c)), Box::new(self.expr(b))),
            Expr::Block(ss, t) => {
                let ss2: Vec<Stmt> = ss.iter().map(|s| self.stmt(s)).collect();
                Expr::Block(ss2, t.as_ref().map(|t| Box::new(self.expr(t))))
            }
            Expr::Match(s, arms) => {
                let s2 = self.expr(s);
                let arms2 = arms.iter().map(|(p, b)| (p.clone(), self.expr(b))).collect();
                Expr::Match(Box::new(s2), arms2)
            }
            Expr::Builtin(n, args) => Expr::Builtin(n.clone(), self.exprs(args)),
            Expr::CallValue(f, args) => Expr::CallValue(Box::new(self.expr(f)), self.exprs(args)),
            Expr::Closure { params, body } => Expr::Closure { params: params.clone(), body: Box::new(self.expr(body)) },
            Expr::MethodCall { recv, method, args } => Expr::MethodCall { recv: Box::new(self.expr(recv)), method: method.clone(), args: self.exprs(args) },
            Expr::AssocCall { head, method, args } => Expr::AssocCall { head: head.clone(), method: method.clone(), args: self.exprs(args) },
            Expr::ToDyn(t, x) => Expr::ToDyn(t.clone(), Box::new(self.expr(x))),
            Expr::Go(x) => Expr::Go(Box::new(self.expr(x))),
            Expr::Paren(x) => Expr::Paren(Box::new(self.expr(x))),
            other => other.clone(),
        }
    }

    fn fn_decl(&mut self, f: &FnDecl) -> FnDecl {
        let mut out = f.clone();
        // function result
        if f.name != "main" && f.tparams.is_empty() {
            if let Expr::Block(ss, Some(tail)) = &f.body {
                if let Some(r) = self.site(&f.ret, "function-result", &format!("result of {}", f.name)) {
                    let ss2 = ss.clone();
                    let _ = tail;
                    out.body = Expr::Block(ss2, Some(Box::new(r)));
                    return out;
                }
            }
        }
        out.body = self.expr(&f.body);
        out
    }

    fn program(&mut self) -> Program {
        let mut out = Program::default();
        for it in &self.prog.items {
            out.items.push(match it {
                Item::Fn(f) => Item::Fn(self.fn_decl(f)),
                Item::Impl(im) => {
                    let mut im2 = im.clone();
                    im2.methods = im.methods.iter().map(|m| {
                        let mut m2 = m.clone();
                        m2.body = self.expr(&m.body);
                        m2
                    }).collect();
                    Item::Impl(im2)
                }
                other => other.clone(),
            });
        }
        out
    }
}

fn print_pat(p: &Pat) -> String {
    let mut pr = Printer::new(PrintOpts::default());
    pr.pat(p);
    pr.out
}

pub fn count_sites(prog: &Program) -> usize {
    let mut rng = Rng::new(0);
    let mut w = Walker { prog, target: usize::MAX, seen: 0, rng: &mut rng, done: None, count_only: true };
    let _ = w.program();
    w.seen
}

/// inject at site `k` (0-based); None if that site could not be broken
pub fn inject_at(prog: &Program, k: usize, rng: &mut Rng) -> Option<(Program, Injection)> {
    let mut w = Walker { prog, target: k, seen: 0, rng, done: None, count_only: false };
    let p = w.program();
    w.done.map(|d| (p, d))
}
