use crate::runner::PropSpec;

pub mod c01;
pub mod c02;
pub mod c03;
pub mod c04;
pub mod c05;
pub mod c06;
pub mod c07;
pub mod c08;
pub mod c09;
pub mod c10;
pub mod c11;
pub mod c12;
pub mod c13;
pub mod c14;
pub mod c15;
pub mod c16;
pub mod c17;
pub mod c18;
pub mod c19;
pub mod c20;

pub fn all() -> Vec<&'static PropSpec> {
    vec![&c01::SPEC, &c02::SPEC, &c03::SPEC, &c04::SPEC, &c05::SPEC, &c06::SPEC, &c07::SPEC, &c08::SPEC, &c09::SPEC, &c10::SPEC, &c11::SPEC, &c12::SPEC, &c13::SPEC, &c14::SPEC, &c15::SPEC, &c16::SPEC, &c17::SPEC, &c18::SPEC, &c19::SPEC, &c20::SPEC]
}
