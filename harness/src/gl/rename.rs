//! Consistent renaming of user identifiers in a GL program (for C19's metamorphic check and for
//! driving adversarial names through every identifier position).
use super::ast::*;
use std::collections::BTreeMap;

#[derive(Default, Clone, Debug)]
pub struct Renaming {
    /// types (structs, enums, traits)
    pub types: BTreeMap<String, String>,
    pub variants: BTreeMap<String, String>,
    pub fields: BTreeMap<String, String>,
    pub methods: BTreeMap<String, String>,
    pub fns: BTreeMap<String, String>,
    pub locals: BTreeMap<String, String>,
    /// print every constructor use / pattern with its enum qualifier (needed when variants of different enums share a name)
    pub qualify_all: bool,
}

fn m(map: &BTreeMap<String, String>, n: &str) -> String {
    map.get(n).cloned().unwrap_or_else(|| n.to_string())
}

impl Renaming {
    fn ty(&self, t: &Ty) -> Ty {
        match t {
            Ty::Tuple(ts) => Ty::Tuple(ts.iter().map(|t| self.ty(t)).collect()),
            Ty::Array(t, n) => Ty::Array(Box::new(self.ty(t)), *n),
            Ty::Vec(t) => Ty::Vec(Box::new(self.ty(t))),
            Ty::Ref(t) => Ty::Ref(Box::new(self.ty(t))),
            Ty::Func(ps, r) => Ty::Func(ps.iter().map(|t| self.ty(t)).collect(), Box::new(self.ty(r))),
            Ty::Struct(n, a) => Ty::Struct(m(&self.types, n), a.iter().map(|t| self.ty(t)).collect()),
            Ty::Enum(n, a) => Ty::Enum(m(&self.types, n), a.iter().map(|t| self.ty(t)).collect()),
            Ty::Dyn(n) => Ty::Dyn(m(&self.types, n)),
            other => other.clone(),
        }
    }
    fn pat(&self, p: &Pat) -> Pat {
        match p {
            Pat::Var(v) => Pat::Var(m(&self.locals, v)),
            Pat::Tuple(ps) => Pat::Tuple(ps.iter().map(|q| self.pat(q)).collect()),
            Pat::Struct { name, fields } => Pat::Struct { name: m(&self.types, name), fields: fields.iter().map(|(f, q)| (m(&self.fields, f), self.pat(q))).collect() },
            Pat::Constr { enum_name, variant, args, qualified } => {
                Pat::Constr { enum_name: m(&self.types, enum_name), variant: m(&self.variants, variant), args: args.iter().map(|q| self.pat(q)).collect(), qualified: *qualified || self.qualify_all }
            }
            other => other.clone(),
        }
    }
    fn stmt(&self, s: &Stmt) -> Stmt {
        match s {
            Stmt::Let(p, t, e) => Stmt::Let(self.pat(p), t.as_ref().map(|t| self.ty(t)), self.expr(e)),
            Stmt::Expr(e) => Stmt::Expr(self.expr(e)),
        }
    }
    fn exprs(&self, es: &[Expr]) -> Vec<Expr> {
        es.iter().map(|e| self.expr(e)).collect()
    }
    pub fn expr(&self, e: &Expr) -> Expr {
        let b = |x: &Expr| Box::new(self.expr(x));
        match e {
            Expr::Var(v) => Expr::Var(m(&self.locals, v)),
            Expr::FnRef(f) => Expr::FnRef(m(&self.fns, f)),
            Expr::Tuple(es) => Expr::Tuple(self.exprs(es)),
            Expr::Array(es) => Expr::Array(self.exprs(es)),
            Expr::StructLit { name, ty, fields } => Expr::StructLit { name: m(&self.types, name), ty: self.ty(ty), fields: fields.iter().map(|(f, x)| (m(&self.fields, f), self.expr(x))).collect() },
            Expr::Constr { enum_name, variant, ty, args, qualified } => {
                Expr::Constr { enum_name: m(&self.types, enum_name), variant: m(&self.variants, variant), ty: self.ty(ty), args: self.exprs(args), qualified: *qualified || self.qualify_all }
            }
            Expr::Field(x, f) => Expr::Field(b(x), m(&self.fields, f)),
            Expr::Proj(x, i) => Expr::Proj(b(x), *i),
            Expr::Unary(op, x) => Expr::Unary(*op, b(x)),
            Expr::Binary(op, l, r) => Expr::Binary(*op, b(l), b(r)),
            Expr::If(c, t, f) => Expr::If(b(c), b(t), b(f)),
            Expr::While(c, x) => Expr::While(b(c), b(x)),
            Expr::Block(ss, t) => Expr::Block(ss.iter().map(|s| self.stmt(s)).collect(), t.as_ref().map(|t| b(t))),
            Expr::Match(s, arms) => Expr::Match(b(s), arms.iter().map(|(p, x)| (self.pat(p), self.expr(x))).collect()),
            Expr::Call { name, targs, args } => Expr::Call { name: m(&self.fns, name), targs: targs.iter().map(|(n, t)| (n.clone(), self.ty(t))).collect(), args: self.exprs(args) },
            Expr::Builtin(n, args) => Expr::Builtin(n.clone(), self.exprs(args)),
            Expr::CallValue(f, args) => Expr::CallValue(b(f), self.exprs(args)),
            Expr::Closure { params, body } => Expr::Closure { params: params.iter().map(|(n, t)| (m(&self.locals, n), t.as_ref().map(|t| self.ty(t)))).collect(), body: b(body) },
            Expr::MethodCall { recv, method, args } => Expr::MethodCall { recv: b(recv), method: m(&self.methods, method), args: self.exprs(args) },
            Expr::AssocCall { head, method, args } => Expr::AssocCall { head: m(&self.types, head), method: m(&self.methods, method), args: self.exprs(args) },
            Expr::ToDyn(t, x) => Expr::ToDyn(m(&self.types, t), b(x)),
            Expr::Go(x) => Expr::Go(b(x)),
            Expr::Paren(x) => Expr::Paren(b(x)),
            other => other.clone(),
        }
    }
    fn fn_decl(&self, f: &FnDecl, is_method: bool) -> FnDecl {
        FnDecl {
            name: if is_method { m(&self.methods, &f.name) } else { m(&self.fns, &f.name) },
            tparams: f.tparams.iter().map(|(p, bs)| (p.clone(), bs.iter().map(|b| m(&self.types, b)).collect())).collect(),
            params: f.params.iter().map(|(n, t)| (m(&self.locals, n), self.ty(t))).collect(),
            ret: self.ty(&f.ret),
            body: self.expr(&f.body),
        }
    }
    pub fn program(&self, p: &Program) -> Program {
        let mut out = Program::default();
        for it in &p.items {
            out.items.push(match it {
                Item::Struct(s) => Item::Struct(StructDecl {
                    name: m(&self.types, &s.name),
                    tparams: s.tparams.clone(),
                    fields: s.fields.iter().map(|(f, t)| (m(&self.fields, f), self.ty(t))).collect(),
                    derives: s.derives.clone(),
                }),
                Item::Enum(e) => Item::Enum(EnumDecl {
                    name: m(&self.types, &e.name),
                    tparams: e.tparams.clone(),
                    variants: e.variants.iter().map(|(v, ts)| (m(&self.variants, v), ts.iter().map(|t| self.ty(t)).collect())).collect(),
                    derives: e.derives.clone(),
                }),
                Item::Trait(t) => Item::Trait(TraitDecl {
                    name: m(&self.types, &t.name),
                    methods: t.methods.iter().map(|ms| MethodSig { name: m(&self.methods, &ms.name), extra: ms.extra.iter().map(|t| self.ty(t)).collect(), ret: self.ty(&ms.ret) }).collect(),
                }),
                Item::Impl(im) => Item::Impl(ImplDecl {
                    trait_name: im.trait_name.as_ref().map(|t| m(&self.types, t)),
                    for_ty: self.ty(&im.for_ty),
                    tparams: im.tparams.clone(),
                    methods: im.methods.iter().map(|f| self.fn_decl(f, true)).collect(),
                }),
                Item::Fn(f) => Item::Fn(self.fn_decl(f, false)),
            });
        }
        out
    }
}

/// every user identifier of a program, by namespace
pub fn collect_names(p: &Program) -> Renaming {
    let mut r = Renaming::default();
    fn pat_names(p: &Pat, r: &mut Renaming) {
        match p {
            Pat::Var(v) => {
                r.locals.insert(v.clone(), v.clone());
            }
            Pat::Tuple(ps) => ps.iter().for_each(|q| pat_names(q, r)),
            Pat::Struct { fields, .. } => fields.iter().for_each(|(_, q)| pat_names(q, r)),
            Pat::Constr { args, .. } => args.iter().for_each(|q| pat_names(q, r)),
            _ => {}
        }
    }
    fn expr_names(e: &Expr, r: &mut Renaming) {
        match e {
            Expr::Tuple(es) | Expr::Array(es) | Expr::Builtin(_, es) => es.iter().for_each(|x| expr_names(x, r)),
            Expr::StructLit { fields, .. } => fields.iter().for_each(|(_, x)| expr_names(x, r)),
            Expr::Constr { args, .. } | Expr::Call { args, .. } | Expr::AssocCall { args, .. } => args.iter().for_each(|x| expr_names(x, r)),
            Expr::Field(x, _) | Expr::Proj(x, _) | Expr::Unary(_, x) | Expr::ToDyn(_, x) | Expr::Go(x) | Expr::Paren(x) => expr_names(x, r),
            Expr::Binary(_, l, rr) | Expr::While(l, rr) => {
                expr_names(l, r);
                expr_names(rr, r);
            }
            Expr::If(c, t, f) => {
                expr_names(c, r);
                expr_names(t, r);
                expr_names(f, r);
            }
            Expr::Block(ss, t) => {
                for s in ss {
                    match s {
                        Stmt::Let(p, _, x) => {
                            pat_names(p, r);
                            expr_names(x, r);
                        }
                        Stmt::Expr(x) => expr_names(x, r),
                    }
                }
                if let Some(t) = t {
                    expr_names(t, r);
                }
            }
            Expr::Match(s, arms) => {
                expr_names(s, r);
                for (p, x) in arms {
                    pat_names(p, r);
                    expr_names(x, r);
                }
            }
            Expr::CallValue(f, args) => {
                expr_names(f, r);
                args.iter().for_each(|x| expr_names(x, r));
            }
            Expr::Closure { params, body } => {
                for (n, _) in params {
                    r.locals.insert(n.clone(), n.clone());
                }
                expr_names(body, r);
            }
            Expr::MethodCall { recv, args, .. } => {
                expr_names(recv, r);
                args.iter().for_each(|x| expr_names(x, r));
            }
            _ => {}
        }
    }
    for it in &p.items {
        match it {
            Item::Struct(s) => {
                r.types.insert(s.name.clone(), s.name.clone());
                for (f, _) in &s.fields {
                    r.fields.insert(f.clone(), f.clone());
                }
            }
            Item::Enum(e) => {
                r.types.insert(e.name.clone(), e.name.clone());
                for (v, _) in &e.variants {
                    r.variants.insert(v.clone(), v.clone());
                }
            }
            Item::Trait(t) => {
                r.types.insert(t.name.clone(), t.name.clone());
                for ms in &t.methods {
                    r.methods.insert(ms.name.clone(), ms.name.clone());
                }
            }
            Item::Impl(im) => {
                for f in &im.methods {
                    r.methods.insert(f.name.clone(), f.name.clone());
                    for (n, _) in &f.params {
                        r.locals.insert(n.clone(), n.clone());
                    }
                    expr_names(&f.body, &mut r);
                }
            }
            Item::Fn(f) => {
                if f.name != "main" {
                    r.fns.insert(f.name.clone(), f.name.clone());
                }
                for (n, _) in &f.params {
                    r.locals.insert(n.clone(), n.clone());
                }
                expr_names(&f.body, &mut r);
            }
        }
    }
    r
}
