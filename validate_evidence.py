#!/usr/bin/env python3
# Validate MANIFEST.json and every evidence file against the schemas (needs jsonschema: run with python3-vt).
import json, sys, glob
import jsonschema
m = json.load(open('/verif/MANIFEST.json'))
jsonschema.validate(m, json.load(open('/root/.vp/MANIFEST.schema.json')))
es = json.load(open('/root/.vp/EVIDENCE.schema.json'))
bad = 0
for f in sorted(glob.glob('/verif/evidence/*.json')):
    try:
        jsonschema.validate(json.load(open(f)), es)
        print('ok', f)
    except Exception as e:
        bad += 1
        print('BAD', f, str(e)[:300])
sys.exit(1 if bad else 0)
