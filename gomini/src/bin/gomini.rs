fn main() {
    let args: Vec<String> = std::env::args().collect();
    for f in &args[2..] {
        let src = std::fs::read_to_string(f).unwrap();
        match gomini::parse::parse_file(&src) {
            Ok(file) => {
                let (rep, _info) = gomini::vet::check(&file);
                if rep.ok() { println!("{}: ok", f); } else {
                    println!("{}: errors={} unsupported={}", f, rep.errors.len(), rep.unsupported.len());
                    for e in rep.errors.iter().take(5) { println!("   [{}] line {}: {}", e.kind, e.line, e.msg); }
                    for u in rep.unsupported.iter().take(5) { println!("   unsupported: {}", u); }
                }
            }
            Err(e) => println!("{}: ERR {}", f, e),
        }
    }
}
