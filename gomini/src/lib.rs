pub mod num;
pub mod lex;
pub mod ast;
pub mod parse;
