//! C13: compilation is deterministic and reproducible.
//!
//! Monitor: the same project is materialised several times with different file/directory creation
//! orders (tmpfs enumerates in reverse creation order; one copy lives on the root filesystem), and
//! compiled in fresh threads and fresh processes (fresh hash seeds). Every observable output -
//! Go text, 8 stage dumps, ordered diagnostics, interface/core files and hashes, linked Go - must be
//! byte-identical across runs.

use crate::projdrv::{self, Obs};
use crate::projgen::{self, Project};
use crate::runner::{self, Case, Ctx, PropSpec};
use crate::util::{self, Rng, hash_str};
use serde_json::json;
use std::collections::BTreeSet;
use std::path::{Path, PathBuf};

pub static SPEC: PropSpec = PropSpec {
    id: "C13",
    level: "exploration",
    rule: "cases: the 8 corpus projects, the 74 single-file corpus programs, generated multi-package projects (1-6 libraries, 1-3 files per package, cross-package traits/impls/generics) ill-typed variants with errors injected in several files (diagnostic order), every multi-file package of those projects re-checked and re-built through the separate-compilation entry points from files relocated to several directories under one file name with the input list in R orders and with entries listed twice, and 20 ambiguity programs in which the compiler picks among candidates (2-4 enums sharing a variant that is used unqualified in 4 positions, one method declared by two / three bounds, duplicate impls / functions / types, 12 independent errors, a variant and a struct of one name, equally named inherent methods, several missing imports; observed 2R times); each is observed R times (R=5 quick, 12 thorough) under different creation orders, filesystems, threads and one fresh process; a case is non-trivial when it has >= 2 imports or >= 2 diagnostics and at least two runs differed in directory enumeration order or probe-HashSet order; distinct by hash of the file set",
    eval_counter: "runs_compared",
    assumptions: &[
        "directory enumeration order is varied through tmpfs creation order and one ext4 copy; the orders actually read back are counted in the evidence",
        "hash seeds vary per thread/process (std RandomState); the number of distinct probe-HashSet orders observed is in the evidence",
        "absolute paths inside messages and CoreUnit.sources are normalised to $ROOT before comparison",
    ],
    crash_is_violation: false,
    stack_mib: 64,
    case_cpu_s: 120,
    shards: 0,
    run,
    floors: &[("runs_compared", 300, 5_000), ("distinct_dir_orders_seen_cases", 10, 100), ("distinct_hash_orders_seen_cases", 10, 100), ("cases_with_diagnostics", 5, 50), ("input_list_orders_compared", 40, 800)],
    finish: None,
};

fn observe_all(root: &Path) -> (Obs, String) {
    let mut all = projdrv::observe_whole(root);
    if let Ok((order, dirs, _)) = projdrv::discover(root) {
        let art = root.join(".artifacts");
        let _ = std::fs::remove_dir_all(&art);
        let sep = projdrv::observe_separate(root, &order, &dirs, &art);
        all.extend(sep.obs);
    }
    (all, projdrv::hash_order_probe())
}

fn dir_signature(root: &Path, files: &[(PathBuf, String)]) -> String {
    let mut dirs: BTreeSet<PathBuf> = BTreeSet::new();
    dirs.insert(PathBuf::new());
    for (rel, _) in files {
        if let Some(p) = rel.parent() {
            dirs.insert(p.to_path_buf());
        }
    }
    let mut s = String::new();
    for d in dirs {
        let names: Vec<String> = projgen::read_dir_order(&root.join(&d)).into_iter().filter(|n| n != ".artifacts").collect();
        s.push_str(&format!("{}:[{}];", d.display(), names.join(",")));
    }
    s
}

/// Observe one file set R times and compare.
pub fn check_project(case: &mut Case, label: &str, files: &[(PathBuf, String)], rng: &mut Rng, runs: usize, scratch: &Path) {
    let key = {
        let mut h = 0u64;
        for (p, t) in files {
            h ^= hash_str(&format!("{}\u{0}{}", p.display(), t)).rotate_left(7);
        }
        h
    };
    case.input = Some(json!({"label": label, "files": files.iter().map(|(p, t)| json!({"path": p.display().to_string(), "text": t})).collect::<Vec<_>>()}));
    let mut baseline: Option<Obs> = None;
    let mut dir_orders: BTreeSet<String> = BTreeSet::new();
    let mut hash_orders: BTreeSet<String> = BTreeSet::new();
    let exe = std::env::current_exe().ok();
    for r in 0..runs {
        let mut order: Vec<usize> = (0..files.len()).collect();
        match r {
            0 => {}
            1 => order.reverse(),
            _ => rng.shuffle(&mut order),
        }
        // one run on the root filesystem (hash order), the rest on tmpfs (reverse creation order)
        let root = if r == 2 {
            util::verif_root().join(format!("out/scratch/c13-{}-{}-{}", std::process::id(), util::hex64(key), r))
        } else {
            scratch.join(format!("c13-{}-{}", util::hex64(key), r))
        };
        let _ = std::fs::remove_dir_all(&root);
        if projgen::materialize(&root, files, &order).is_err() {
            case.inconclusive("could not materialise project");
            return;
        }
        dir_orders.insert(dir_signature(&root, files));
        let (obs, probe) = if r == 3 && exe.is_some() {
            // fresh process
            let out = std::process::Command::new(exe.as_ref().unwrap())
                .arg("observe")
                .arg(&root)
                .arg(root.join(".artifacts"))
                .output();
            match out {
                Ok(o) if o.status.success() => {
                    let v: serde_json::Value = serde_json::from_slice(&o.stdout).unwrap_or(json!({}));
                    let mut m = Obs::new();
                    let mut probe = String::new();
                    if let Some(map) = v.as_object() {
                        for (k, val) in map {
                            if k == "probe/hash_order" {
                                probe = val.as_str().unwrap_or("").to_string();
                            } else {
                                m.insert(k.clone(), val.as_str().unwrap_or("").to_string());
                            }
                        }
                    }
                    case.count("fresh_process_runs", 1);
                    (m, probe)
                }
                _ => {
                    // the child may have died from a compiler panic: that is C04's business
                    case.count("fresh_process_failed", 1);
                    let _ = std::fs::remove_dir_all(&root);
                    continue;
                }
            }
        } else {
            let root2 = root.clone();
            let h = std::thread::Builder::new().stack_size(64 << 20).spawn(move || observe_all(&root2));
            match h.map(|h| h.join()) {
                Ok(Ok(x)) => x,
                _ => {
                    case.count("thread_run_failed", 1);
                    let _ = std::fs::remove_dir_all(&root);
                    case.inconclusive("compiler panicked while observing (a C04 event)");
                    return;
                }
            }
        };
        hash_orders.insert(probe);
        let _ = std::fs::remove_dir_all(&root);
        let is_digest = r == 3 && exe.is_some();
        match &baseline {
            None => baseline = Some(obs),
            Some(b) => {
                case.count("runs_compared", 1);
                let bcmp: Obs = if is_digest { projdrv::digest(b) } else { b.clone() };
                if bcmp != obs {
                    let mut diffs = Vec::new();
                    for k in bcmp.keys().chain(obs.keys()).collect::<BTreeSet<_>>() {
                        if bcmp.get(k) != obs.get(k) {
                            diffs.push(k.clone());
                        }
                    }
                    let first = diffs.first().cloned().unwrap_or_default();
                    let class = first.split('/').last().unwrap_or("?").to_string();
                    let (a_txt, b_txt) = (b.get(&first).cloned().unwrap_or_default(), obs.get(&first).cloned().unwrap_or_default());
                    case.violation(
                        format!("nondeterministic:{}", class),
                        format!("run {} ({}) differs from run 0 in {} artifact(s), first: {}", r, if is_digest { "fresh process" } else if r == 2 { "root fs" } else { "tmpfs, other creation order" }, diffs.len(), first),
                        json!({"label": label, "differing": diffs, "run": r, "first_a": util::truncate(&a_txt, 3000), "first_b": util::truncate(&b_txt, 3000),
                               "files": files.iter().map(|(p, t)| json!({"path": p.display().to_string(), "text": t})).collect::<Vec<_>>()}),
                    );
                    break;
                }
            }
        }
    }
    if let Some(b) = &baseline {
        let ndiag = b.values().filter(|v| v.starts_with("stage=")).map(|v| v.lines().count().saturating_sub(1)).sum::<usize>();
        if ndiag >= 1 {
            case.count("cases_with_diagnostics", 1);
        }
        let nimports: usize = files.iter().map(|(_, t)| t.matches("\nimport ").count()).sum();
        if (nimports >= 2 || ndiag >= 2) && (dir_orders.len() >= 2 || hash_orders.len() >= 2) {
            case.nontrivial(key);
        }
    }
    if dir_orders.len() >= 2 {
        case.count("distinct_dir_orders_seen_cases", 1);
    }
    if hash_orders.len() >= 2 {
        case.count("distinct_hash_orders_seen_cases", 1);
    }
    case.count("dir_orders_observed_total", dir_orders.len() as u64);
    case.count("hash_orders_observed_total", hash_orders.len() as u64);
    case.sample(json!({"workload": label.split('/').next().unwrap_or(label), "files": files.iter().map(|(p, _)| p.display().to_string()).collect::<Vec<_>>(),
        "dir_orders_seen": dir_orders.len(), "hash_orders_seen": hash_orders.len(),
        "artifacts_compared": baseline.as_ref().map(|b| b.len()).unwrap_or(0)}));
}

/// The separate-compilation entry points take the package's source files as a LIST: a package whose files sit in
/// several directories under equal file names (`part0/lib.gom`, `part1/lib.gom`, ...) is checked and built with that
/// list in different orders (as another directory enumeration / glob expansion would give it) and with entries listed
/// twice: interface, core, hash and diagnostics must not depend on it.
pub fn check_input_orders(case: &mut Case, label: &str, files: &[(PathBuf, String)], rng: &mut Rng, runs: usize, scratch: &Path) {
    use compiler::pipeline::separate;
    let key = hash_str(&format!("{}|{}", label, files.len()));
    let root = scratch.join(format!("c13-inputs-{}-{}", std::process::id(), util::hex64(key)));
    let _ = std::fs::remove_dir_all(&root);
    let order: Vec<usize> = (0..files.len()).collect();
    if projgen::materialize(&root, files, &order).is_err() {
        case.inconclusive("could not materialise project");
        return;
    }
    let Ok((topo, dirs, _)) = projdrv::discover(&root) else {
        let _ = std::fs::remove_dir_all(&root);
        return;
    };
    let art = root.join(".artifacts");
    // artifacts of every package in the normal layout (dependencies of the packages re-built below)
    let root2 = root.clone();
    let (topo2, dirs2, art2) = (topo.clone(), dirs.clone(), art.clone());
    let ok = std::thread::Builder::new().stack_size(64 << 20).spawn(move || projdrv::observe_separate(&root2, &topo2, &dirs2, &art2).accepted).map(|h| h.join());
    if !matches!(ok, Ok(Ok(_))) {
        let _ = std::fs::remove_dir_all(&root);
        case.inconclusive("compiler panicked while observing (a C04 event)");
        return;
    }
    for pkg in &topo {
        let Some(dir) = dirs.get(pkg) else { continue };
        let srcs = projdrv::gom_files(dir);
        if srcs.len() < 2 {
            continue;
        }
        // relocate: file k (in sorted order) becomes <root>/.multi/<pkg>/part<k>/lib.gom
        let mut inputs: Vec<PathBuf> = Vec::new();
        for (k, p) in srcs.iter().enumerate() {
            let d = root.join(".multi").join(pkg).join(format!("part{}", k));
            let _ = std::fs::create_dir_all(&d);
            let dst = d.join("lib.gom");
            if std::fs::copy(p, &dst).is_err() {
                case.inconclusive("could not relocate package files");
                let _ = std::fs::remove_dir_all(&root);
                return;
            }
            inputs.push(dst);
        }
        let mut baseline: Option<Obs> = None;
        for r in 0..runs.max(3) {
            let mut list = inputs.clone();
            match r {
                0 => {}
                1 => list.reverse(),
                _ => rng.shuffle(&mut list),
            }
            if r >= 2 && r % 2 == 0 {
                // one file listed twice, the copies apart from each other
                let dup = list[0].clone();
                list.push(dup);
            }
            let (pkg2, art2, root2, list2) = (pkg.clone(), art.clone(), root.clone(), list.clone());
            let h = std::thread::Builder::new().stack_size(64 << 20).spawn(move || {
                let mut o = Obs::new();
                match separate::check_package(separate::PackageInputs { package: pkg2.clone(), input_files: list2.clone(), interface_paths: vec![art2.clone()] }) {
                    Ok(unit) => {
                        o.insert("check.interface".into(), serde_json::to_string_pretty(&unit).unwrap_or_default());
                        o.insert("check.hash".into(), unit.interface_hash.clone());
                    }
                    Err(e) => {
                        o.insert("check.err".into(), projdrv::diag_lines(&e, &root2));
                    }
                }
                match separate::build_package(separate::PackageInputs { package: pkg2, input_files: list2, interface_paths: vec![art2] }) {
                    Ok(unit) => {
                        o.insert("build.interface".into(), serde_json::to_string_pretty(&unit.interface).unwrap_or_default());
                        o.insert("build.core".into(), serde_json::to_string_pretty(&unit).unwrap_or_default());
                        o.insert("build.hash".into(), unit.interface.interface_hash.clone());
                    }
                    Err(e) => {
                        o.insert("build.err".into(), projdrv::diag_lines(&e, &root2));
                    }
                }
                o
            });
            let obs = match h.map(|h| h.join()) {
                Ok(Ok(o)) => o,
                _ => {
                    case.inconclusive("compiler panicked while observing (a C04 event)");
                    let _ = std::fs::remove_dir_all(&root);
                    return;
                }
            };
            match &baseline {
                None => baseline = Some(obs),
                Some(b) => {
                    case.count("input_list_orders_compared", 1);
                    if b != &obs {
                        let diffs: Vec<String> = b.keys().chain(obs.keys()).collect::<BTreeSet<_>>().into_iter().filter(|k| b.get(*k) != obs.get(*k)).cloned().collect();
                        let first = diffs.first().cloned().unwrap_or_default();
                        case.violation(
                            format!("nondeterministic:input-list-order:{}", first),
                            format!("package {} checked / built from the same files listed in another order ({}) differs in {} artifact(s), first: {}", pkg, list.iter().map(|p| p.strip_prefix(&root).unwrap_or(p).display().to_string()).collect::<Vec<_>>().join(" "), diffs.len(), first),
                            json!({"label": label, "package": pkg, "differing": diffs, "list": list.iter().map(|p| p.display().to_string()).collect::<Vec<_>>(),
                                   "first_a": util::truncate(b.get(&first).map(|s| s.as_str()).unwrap_or(""), 2000), "first_b": util::truncate(obs.get(&first).map(|s| s.as_str()).unwrap_or(""), 2000),
                                   "files": files.iter().map(|(p, t)| json!({"path": p.display().to_string(), "text": t})).collect::<Vec<_>>()}),
                        );
                        break;
                    }
                }
            }
        }
        case.count("multi_directory_packages", 1);
    }
    let _ = std::fs::remove_dir_all(&root);
}

pub fn read_tree(root: &Path) -> Vec<(PathBuf, String)> {
    let mut out = Vec::new();
    let mut stack = vec![root.to_path_buf()];
    while let Some(d) = stack.pop() {
        let Ok(rd) = std::fs::read_dir(&d) else { continue };
        for e in rd.filter_map(|e| e.ok()) {
            let p = e.path();
            if p.is_dir() {
                stack.push(p);
            } else if p.extension().is_some_and(|x| x == "gom") {
                if let Ok(t) = std::fs::read_to_string(&p) {
                    out.push((p.strip_prefix(root).unwrap().to_path_buf(), t));
                }
            }
        }
    }
    out.sort();
    out
}

pub fn corpus_projects() -> Vec<(String, Vec<(PathBuf, String)>)> {
    let base = util::repo_root().join("crates/compiler/src/tests/package");
    let mut v = Vec::new();
    if let Ok(rd) = std::fs::read_dir(&base) {
        let mut ents: Vec<_> = rd.filter_map(|e| e.ok()).map(|e| e.path()).filter(|p| p.is_dir()).collect();
        ents.sort();
        for p in ents {
            v.push((p.file_name().unwrap().to_string_lossy().to_string(), read_tree(&p)));
        }
    }
    v
}

/// Inject type / name errors into several files so that the order of diagnostics is exercised.
pub fn inject_errors(rng: &mut Rng, files: &mut [(PathBuf, String)]) -> usize {
    let reps: &[(&str, &str)] = &[
        ("s.v + s.w", "s.v + true"),
        ("x + 1)", "x + \"a\")"),
        ("let base = x *", "let base = nope(x) *"),
        ("T::desc(x)", "T::desc(x, 1)"),
        ("match o { Some(v) => v", "match o { Some(v) => 1"),
        ("int32_to_string(self.v)", "int32_to_string(self.nofield)"),
        ("fn id[T](x: T) -> T { x }", "fn id[T](x: T) -> T { 1 }"),
        ("    ()\n}", "    undefined_name\n}"),
    ];
    let mut n = 0;
    // load-time errors, which are reported while the package's files are still being read: a second package
    // declaration name and unparsable files, in packages with several files (which one is reported first
    // must not depend on the order the directory happens to be enumerated in)
    if rng.chance(1, 3) {
        let mut by_dir: std::collections::BTreeMap<String, Vec<usize>> = std::collections::BTreeMap::new();
        for (i, (p, _)) in files.iter().enumerate() {
            by_dir.entry(p.parent().map(|d| d.display().to_string()).unwrap_or_default()).or_default().push(i);
        }
        let multi: Vec<Vec<usize>> = by_dir.values().filter(|v| v.len() >= 3 || (v.len() == 2 && !files[v[0]].0.ends_with("main.gom"))).cloned().collect();
        if !multi.is_empty() {
            let group = rng.pick_ref(&multi).clone();
            let non_entry: Vec<usize> = group.iter().copied().filter(|i| !files[*i].0.ends_with("main.gom")).collect();
            match rng.below(3) {
                0 if !non_entry.is_empty() => {
                    let i = *rng.pick_ref(&non_entry);
                    let first = files[i].1.lines().next().unwrap_or("").to_string();
                    files[i].1 = files[i].1.replacen(&first, "package Elsewhere", 1);
                    n += 1;
                }
                1 if non_entry.len() >= 2 => {
                    for i in non_entry.iter().take(2) {
                        files[*i].1.push_str("\nfn broken( {\n");
                        n += 1;
                    }
                }
                _ => {
                    for i in non_entry.iter() {
                        let first = files[*i].1.lines().next().unwrap_or("").to_string();
                        files[*i].1 = files[*i].1.replacen(&first, &format!("{}x{}", first, i), 1);
                        files[*i].1.push_str("\nlet let let\n");
                        n += 1;
                    }
                }
            }
        }
    }
    for (_, text) in files.iter_mut() {
        for (a, b) in reps {
            if text.contains(a) && rng.chance(1, 2) {
                *text = text.replacen(a, b, 1);
                n += 1;
            }
        }
    }
    n
}

/// single-file programs in which the compiler has to pick among several candidates
pub fn ambiguity_programs() -> Vec<(String, String)> {
    let mut out = Vec::new();
    let describe = "trait Describe { fn describe(Self) -> string; }\n";
    for n in 2..=4usize {
        let names = ["Shape", "Slot", "Cell", "Gap"];
        let mut enums = String::new();
        let mut impls = String::new();
        for e in names.iter().take(n) {
            enums.push_str(&format!("enum {} {{ Empty, Full{}(int32) }}\n", e, e));
            impls.push_str(&format!("impl Describe for {} {{ fn describe(self: {}) -> string {{ \"{}\" }} }}\n", e, e, e));
        }
        out.push((format!("shared-variant-unconstrained-{}", n), format!("{}{}{}fn main() -> unit {{\n    let x = Empty;\n    let _ = string_println(Describe::describe(x));\n    ()\n}}\n", describe, enums, impls)));
        out.push((format!("shared-variant-annotated-{}", n), format!("{}{}{}fn main() -> unit {{\n    let a: {} = Empty;\n    let _ = string_println(Describe::describe(a));\n    ()\n}}\n", describe, enums, impls, names[n - 1])));
        out.push((format!("shared-variant-pattern-{}", n), format!("{}{}{}fn pick(s: {}) -> int32 {{ match s {{ Empty => 0, _ => 1 }} }}\nfn main() -> unit {{\n    let _ = string_println(int32_to_string(pick({}::Empty)));\n    ()\n}}\n", describe, enums, impls, names[0], names[0])));
        out.push((format!("shared-variant-argument-{}", n), format!("{}{}{}fn take(s: {}) -> string {{ Describe::describe(s) }}\nfn main() -> unit {{\n    let _ = string_println(take(Empty));\n    ()\n}}\n", describe, enums, impls, names[1])));
    }
    out.push(("method-in-two-bounds".into(), "trait A { fn m(Self) -> int32; }\ntrait B { fn m(Self) -> int32; }\nstruct S { v: int32 }\nimpl A for S { fn m(self: S) -> int32 { 1 } }\nimpl B for S { fn m(self: S) -> int32 { 2 } }\nfn g[T: A + B](t: T) -> int32 { t.m() }\nfn main() -> unit {\n    let _ = string_println(int32_to_string(g(S { v: 0 })));\n    ()\n}\n".into()));
    out.push(("method-in-three-bounds".into(), "trait A { fn m(Self) -> int32; }\ntrait B { fn m(Self) -> int32; }\ntrait C { fn m(Self) -> int32; }\nstruct S { v: int32 }\nimpl A for S { fn m(self: S) -> int32 { 1 } }\nimpl B for S { fn m(self: S) -> int32 { 2 } }\nimpl C for S { fn m(self: S) -> int32 { 3 } }\nfn g[T: C + A + B](t: T) -> int32 { t.m() }\nfn main() -> unit {\n    let _ = string_println(int32_to_string(g(S { v: 0 })));\n    ()\n}\n".into()));
    out.push(("duplicate-impls".into(), "trait A { fn m(Self) -> int32; }\nstruct S { v: int32 }\nstruct R { v: int32 }\nimpl A for S { fn m(self: S) -> int32 { 1 } }\nimpl A for R { fn m(self: R) -> int32 { 1 } }\nimpl A for S { fn m(self: S) -> int32 { 2 } }\nimpl A for R { fn m(self: R) -> int32 { 2 } }\nfn main() -> unit {\n    let _ = string_println(int32_to_string(A::m(S { v: 0 }) + A::m(R { v: 0 })));\n    ()\n}\n".into()));
    out.push(("duplicate-functions-and-types".into(), "struct S { v: int32 }\nstruct S { w: int32 }\nenum E { A }\nenum E { B }\nfn f() -> int32 { 1 }\nfn f() -> int32 { 2 }\nfn g() -> int32 { 1 }\nfn g() -> bool { true }\nfn main() -> unit {\n    let _ = string_println(int32_to_string(f() + g()));\n    ()\n}\n".into()));
    let mut many = String::new();
    for i in 0..12 {
        many.push_str(&format!("fn bad{}() -> int32 {{ missing{}(1) + other{} }}\n", i, i, i));
    }
    many.push_str("fn main() -> unit {\n    ()\n}\n");
    out.push(("many-independent-errors".into(), many));
    out.push(("variant-and-struct-share-name".into(), "struct Point { v: int32 }\nenum Kind { Point(int32), Other }\nfn main() -> unit {\n    let p = Point { v: 1 };\n    let k = Point(2);\n    let _ = string_println(int32_to_string(p.v));\n    ()\n}\n".into()));
    out.push(("inherent-methods-same-name".into(), "struct A { v: int32 }\nstruct B { v: int32 }\nstruct C { v: int32 }\nimpl A { fn get(self: A) -> int32 { 1 } }\nimpl B { fn get(self: B) -> int32 { 2 } }\nimpl C { fn get(self: C) -> int32 { 3 } }\nfn pick(x: int32) -> int32 { let u = if x > 0 { mk_a() } else { mk_a() }; u.get() }\nfn mk_a() -> A { A { v: 0 } }\nfn main() -> unit {\n    let _ = string_println(int32_to_string(pick(1)));\n    ()\n}\n".into()));
    // several Go packages bound through `extern "go"`, some of them unused (their imports are pruned from the Go
    // text): the import block that is left must come out in one order (added after a seeded change that rebuilt it
    // from a HashMap whenever something was pruned)
    let externs = "extern \"go\" \"strings\" \"ToUpper\" to_upper(s: string) -> string\nextern \"go\" \"strings\" \"Repeat\" repeat(s: string, n: int32) -> string\nextern \"go\" \"os\" \"Getenv\" getenv(name: string) -> string\nextern \"go\" \"strconv\" \"Quote\" quote(s: string) -> string\nextern \"go\" \"path\" \"Base\" base(s: string) -> string\nextern \"go\" \"html\" \"EscapeString\" esc(s: string) -> string\nextern \"go\" \"sort\" \"SearchInts\" unused_search(n: int32) -> int32\n";
    for (name, body) in [
        ("extern-imports-one-pruned", "to_upper(\"a\") + quote(\"b\") + base(\"c/d\") + esc(\"<\") + repeat(\"x\", 2)"),
        ("extern-imports-most-pruned", "quote(\"b\") + base(\"c/d\")"),
        ("extern-imports-all-but-two-used", "to_upper(\"a\") + quote(\"b\") + base(\"c/d\") + esc(\"<\") + getenv(\"HOME\")"),
    ] {
        out.push((name.into(), format!("{}fn main() -> unit {{\n    let _ = string_println({});\n    ()\n}}\n", externs, body)));
    }
    out.push(("missing-imports-and-packages".into(), "package Main\nimport Zeta\nimport Alpha\nimport Mid\n\nfn main() -> unit {\n    let _ = string_println(int32_to_string(Zeta::f(1) + Alpha::f(1) + Mid::f(1) + Nope::f(1)));\n    ()\n}\n".into()));
    out
}

fn run(ctx: &mut Ctx) {
    let tier = ctx.tier;
    let seed = ctx.seed;
    let runs = tier.pick(5usize, 12usize);
    let scratch = crate::capi::scratch_dir().clone();
    if let Some(rep) = ctx.replay_input.clone() {
        let files: Vec<(PathBuf, String)> = rep["record"]["detail"]["files"]
            .as_array()
            .map(|a| a.iter().map(|f| (PathBuf::from(f["path"].as_str().unwrap_or("main.gom")), f["text"].as_str().unwrap_or("").to_string())).collect())
            .unwrap_or_default();
        let mut rng = Rng::new(seed);
        ctx.case("replay", |c| check_project(c, "replay", &files, &mut rng, 12, &scratch));
        crate::capi::cleanup_scratch();
        return;
    }
    // corpus projects
    for (i, (name, files)) in corpus_projects().into_iter().enumerate() {
        if ctx.mine(i as u64) {
            let mut rng = Rng::keyed(seed, "c13-corpus", i as u64, 0);
            ctx.case(&format!("corpus_project/{}", name), |c| check_project(c, &format!("corpus_project/{}", name), &files, &mut rng, runs, &scratch));
        }
    }
    // single-file corpus
    for (i, d) in crate::goldens::pipeline_dirs().into_iter().enumerate() {
        if !ctx.mine(i as u64 + 3) {
            continue;
        }
        if tier == crate::runner::Tier::Quick && i % 4 != 0 {
            continue;
        }
        let Ok(text) = std::fs::read_to_string(d.join("main.gom")) else { continue };
        let files = vec![(PathBuf::from("main.gom"), text)];
        let mut rng = Rng::keyed(seed, "c13-single", i as u64, 0);
        let name = d.file_name().unwrap().to_string_lossy().to_string();
        ctx.case(&format!("corpus_single/{}", name), |c| check_project(c, &format!("corpus_single/{}", name), &files, &mut rng, runs.min(5), &scratch));
    }
    // programs whose meaning / diagnostics depend on a choice among several candidates (ambiguous
    // constructors and methods, duplicate definitions, many independent errors): the choice must not
    // follow hash-map iteration order, so these run more often than the rest
    for (k, (name, text)) in ambiguity_programs().into_iter().enumerate() {
        if !ctx.mine(k as u64 + 11) {
            continue;
        }
        let files = vec![(PathBuf::from("main.gom"), text)];
        let mut rng = Rng::keyed(seed, "c13-ambig", k as u64, 0);
        let label = format!("ambiguity/{}", name);
        ctx.case(&label.clone(), |c| {
            check_project(c, &label, &files, &mut rng, runs * 2, &scratch);
            c.count("ambiguity_programs", 1);
        });
    }
    // generated projects, well-typed and ill-typed
    let n = tier.pickn(64u64, 1200u64) / ctx.nshards as u64 + 1;
    for i in 0..n {
        let mut rng = Rng::keyed(seed, "c13-gen", ctx.shard as u64, i);
        let proj = Project::generate(&mut rng, 6);
        let mut files = proj.render();
        let ill = rng.chance(2, 5);
        let label = if ill {
            let k = inject_errors(&mut rng, &mut files);
            format!("generated_ill/{}/{}/{}", ctx.shard, i, k)
        } else {
            format!("generated/{}/{}", ctx.shard, i)
        };
        ctx.case(&label.clone(), |c| {
            runner::note_input(&label);
            check_project(c, &label, &files, &mut rng, runs, &scratch);
            c.count(if ill { "projects_ill_typed" } else { "projects_well_typed" }, 1);
        });
        let label2 = format!("input_orders/{}/{}", ctx.shard, i);
        ctx.case(&label2.clone(), |c| {
            runner::note_input(&label2);
            check_input_orders(c, &label2, &files, &mut rng, runs, &scratch);
        });
    }
    crate::capi::cleanup_scratch();
}
