//! refsem: the executable statement of goml's source-level meaning for GL programs.
//! Call-by-value, left-to-right, exactly-once, short-circuit && / ||, first-match patterns, lexically
//! scoped closures, shared Ref cells, immutable tuples/arrays/vectors/structs, fixed-width wrap-around
//! integers, truncating division failing on zero, failing out-of-range accesses, failing
//! non-exhaustive matches, generics by substitution, trait dispatch on the receiver's type.
//! Shares no code with the compiler and reads none of its output.

use super::ast::*;
use std::cell::RefCell;
use std::collections::HashMap;
use std::rc::Rc;

#[derive(Clone, Debug)]
pub enum Value {
    Unit,
    Bool(bool),
    Int(IntTy, i128),
    F32(f32),
    F64(f64),
    Str(Rc<String>),
    Tuple(Rc<Vec<Value>>),
    Array(Rc<Vec<Value>>),
    Vector(Rc<Vec<Value>>),
    Ref(Rc<RefCell<Value>>, u64),
    Struct(Rc<StructVal>),
    Enum(Rc<EnumVal>),
    Closure(Rc<ClosureVal>),
    FnRef(String),
    BuiltinRef(String),
}

#[derive(Debug)]
pub struct StructVal {
    pub ty: Ty,
    pub fields: Vec<(String, Value)>,
}
#[derive(Debug)]
pub struct EnumVal {
    pub ty: Ty,
    pub variant: String,
    pub args: Vec<Value>,
}
#[derive(Debug)]
pub struct ClosureVal {
    pub params: Vec<String>,
    pub body: Expr,
    pub env: Env,
    pub tenv: Rc<Vec<(String, Ty)>>,
}

#[derive(Debug)]
pub struct EnvNode {
    name: String,
    value: Value,
    next: Env,
}
pub type Env = Option<Rc<EnvNode>>;

fn env_push(env: &Env, name: &str, value: Value) -> Env {
    Some(Rc::new(EnvNode { name: name.to_string(), value, next: env.clone() }))
}
fn env_get(env: &Env, name: &str) -> Option<Value> {
    let mut cur = env;
    while let Some(n) = cur {
        if n.name == name {
            return Some(n.value.clone());
        }
        cur = &n.next;
    }
    None
}

#[derive(Clone, Debug, PartialEq)]
pub enum Stop {
    /// runtime failure of the program (class)
    Fail(String),
    /// evaluator budget exhausted (generator produced something too long): inconclusive
    Budget,
    /// the evaluator met something it does not model: inconclusive
    Unmodelled(String),
}

#[derive(Clone, Debug, PartialEq)]
pub enum Ev {
    Print(String),
    RefNew(u64),
    RefGet(u64),
    RefSet(u64),
    Spawn,
}

pub struct Outcome {
    pub stdout: String,
    /// None = normal exit
    pub stop: Option<Stop>,
    pub events: Vec<Ev>,
    pub steps: u64,
    /// spawned activations that were run (go statements executed)
    pub spawns: u64,
}

pub struct Interp<'a> {
    prog: &'a Program,
    fns: HashMap<&'a str, &'a FnDecl>,
    pub out: String,
    pub events: Vec<Ev>,
    steps: u64,
    budget: u64,
    next_ref: u64,
    depth: u32,
    spawns: u64,
    pending: Vec<(Rc<ClosureVal>,)>,
    pub record_events: bool,
}

type R = Result<Value, Stop>;

pub fn type_of(v: &Value) -> Option<Ty> {
    Some(match v {
        Value::Unit => Ty::Unit,
        Value::Bool(_) => Ty::Bool,
        Value::Int(t, _) => Ty::Int(*t),
        Value::F32(_) => Ty::F32,
        Value::F64(_) => Ty::F64,
        Value::Str(_) => Ty::Str,
        Value::Tuple(vs) => Ty::Tuple(vs.iter().map(type_of).collect::<Option<Vec<_>>>()?),
        Value::Struct(s) => s.ty.clone(),
        Value::Enum(e) => e.ty.clone(),
        _ => return None,
    })
}

/// string(byte): the UTF-8 encoding of the code point with that byte's value
fn byte_to_string(b: u8) -> String {
    char::from(b).to_string()
}

impl<'a> Interp<'a> {
    pub fn new(prog: &'a Program, budget: u64) -> Interp<'a> {
        let mut fns = HashMap::new();
        for f in prog.fns() {
            fns.insert(f.name.as_str(), f);
        }
        Interp { prog, fns, out: String::new(), events: Vec::new(), steps: 0, budget, next_ref: 0, depth: 0, spawns: 0, pending: Vec::new(), record_events: true }
    }

    pub fn run_main(mut self) -> Outcome {
        let stop = match self.call_named("main", &[], Vec::new()) {
            Ok(_) => None,
            Err(s) => Some(s),
        };
        Outcome { stdout: self.out, stop, events: self.events, steps: self.steps, spawns: self.spawns }
    }

    fn tick(&mut self) -> Result<(), Stop> {
        self.steps += 1;
        if self.steps > self.budget {
            return Err(Stop::Budget);
        }
        Ok(())
    }

    fn print(&mut self, s: &str) {
        self.out.push_str(s);
        if self.record_events {
            self.events.push(Ev::Print(s.to_string()));
        }
    }

    pub fn call_named(&mut self, name: &str, targs: &[(String, Ty)], args: Vec<Value>) -> R {
        let Some(f) = self.fns.get(name).copied() else {
            return Err(Stop::Unmodelled(format!("unknown function {}", name)));
        };
        self.call_decl(f, targs.to_vec(), args)
    }

    fn call_decl(&mut self, f: &FnDecl, tenv: Vec<(String, Ty)>, args: Vec<Value>) -> R {
        if f.params.len() != args.len() {
            return Err(Stop::Unmodelled(format!("arity mismatch calling {}", f.name)));
        }
        self.depth += 1;
        if self.depth > 400 {
            self.depth -= 1;
            return Err(Stop::Budget);
        }
        let mut env: Env = None;
        for ((n, _), v) in f.params.iter().zip(args) {
            env = env_push(&env, n, v);
        }
        let tenv = Rc::new(tenv);
        let r = self.eval(&f.body, &env, &tenv);
        self.depth -= 1;
        r
    }

    fn apply(&mut self, f: &Value, args: Vec<Value>) -> R {
        match f {
            Value::Closure(c) => {
                if c.params.len() != args.len() {
                    return Err(Stop::Unmodelled("closure arity".into()));
                }
                self.depth += 1;
                if self.depth > 400 {
                    self.depth -= 1;
                    return Err(Stop::Budget);
                }
                let mut env = c.env.clone();
                for (n, v) in c.params.iter().zip(args) {
                    env = env_push(&env, n, v);
                }
                let r = self.eval(&c.body, &env, &c.tenv);
                self.depth -= 1;
                r
            }
            Value::FnRef(n) => {
                let n = n.clone();
                self.call_named(&n, &[], args)
            }
            Value::BuiltinRef(n) => {
                let n = n.clone();
                self.builtin(&n, args)
            }
            _ => Err(Stop::Unmodelled("call of a non-function value".into())),
        }
    }

    fn find_impl_method(&self, trait_name: Option<&str>, recv_ty: &Ty, method: &str) -> Option<(&'a FnDecl, Vec<(String, Ty)>)> {
        for im in self.prog.impls() {
            if im.trait_name.as_deref() != trait_name {
                continue;
            }
            let mut tenv = Vec::new();
            let matches = if im.tparams.is_empty() {
                &im.for_ty == recv_ty
            } else {
                match (&im.for_ty, recv_ty) {
                    (Ty::Struct(n, pa), Ty::Struct(m, aa)) | (Ty::Enum(n, pa), Ty::Enum(m, aa)) if n == m && pa.len() == aa.len() => {
                        for (p, a) in pa.iter().zip(aa.iter()) {
                            if let Ty::Param(pn) = p {
                                tenv.push((pn.clone(), a.clone()));
                            }
                        }
                        true
                    }
                    _ => false,
                }
            };
            if matches {
                if let Some(m) = im.methods.iter().find(|m| m.name == method) {
                    return Some((m, tenv));
                }
            }
        }
        None
    }

    fn int_binop(&self, op: BinOp, t: IntTy, a: i128, b: i128) -> R {
        Ok(match op {
            BinOp::Add => Value::Int(t, t.wrap(a + b)),
            BinOp::Sub => Value::Int(t, t.wrap(a - b)),
            BinOp::Mul => Value::Int(t, t.wrap(a.wrapping_mul(b))),
            BinOp::Div => {
                if b == 0 {
                    return Err(Stop::Fail("divide-by-zero".into()));
                }
                // truncating division; MIN / -1 wraps to MIN
                Value::Int(t, t.wrap(a.wrapping_div(b)))
            }
            BinOp::Lt => Value::Bool(a < b),
            BinOp::Gt => Value::Bool(a > b),
            BinOp::Le => Value::Bool(a <= b),
            BinOp::Ge => Value::Bool(a >= b),
            BinOp::Eq => Value::Bool(a == b),
            BinOp::Ne => Value::Bool(a != b),
            BinOp::And | BinOp::Or => return Err(Stop::Unmodelled("logical op on ints".into())),
        })
    }

    fn binop(&self, op: BinOp, l: Value, r: Value) -> R {
        match (l, r) {
            (Value::Int(t, a), Value::Int(t2, b)) if t == t2 => self.int_binop(op, t, a, b),
            (Value::F64(a), Value::F64(b)) => Ok(match op {
                BinOp::Add => Value::F64(a + b),
                BinOp::Sub => Value::F64(a - b),
                BinOp::Mul => Value::F64(a * b),
                BinOp::Div => Value::F64(a / b),
                BinOp::Lt => Value::Bool(a < b),
                BinOp::Gt => Value::Bool(a > b),
                BinOp::Le => Value::Bool(a <= b),
                BinOp::Ge => Value::Bool(a >= b),
                BinOp::Eq => Value::Bool(a == b),
                BinOp::Ne => Value::Bool(a != b),
                _ => return Err(Stop::Unmodelled("logical op on floats".into())),
            }),
            (Value::F32(a), Value::F32(b)) => Ok(match op {
                BinOp::Add => Value::F32(a + b),
                BinOp::Sub => Value::F32(a - b),
                BinOp::Mul => Value::F32(a * b),
                BinOp::Div => Value::F32(a / b),
                BinOp::Lt => Value::Bool(a < b),
                BinOp::Gt => Value::Bool(a > b),
                BinOp::Le => Value::Bool(a <= b),
                BinOp::Ge => Value::Bool(a >= b),
                BinOp::Eq => Value::Bool(a == b),
                BinOp::Ne => Value::Bool(a != b),
                _ => return Err(Stop::Unmodelled("logical op on floats".into())),
            }),
            (Value::Str(a), Value::Str(b)) => Ok(match op {
                BinOp::Add => Value::Str(Rc::new(format!("{}{}", a, b))),
                BinOp::Eq => Value::Bool(a == b),
                BinOp::Ne => Value::Bool(a != b),
                BinOp::Lt => Value::Bool(a.as_bytes() < b.as_bytes()),
                BinOp::Gt => Value::Bool(a.as_bytes() > b.as_bytes()),
                BinOp::Le => Value::Bool(a.as_bytes() <= b.as_bytes()),
                BinOp::Ge => Value::Bool(a.as_bytes() >= b.as_bytes()),
                _ => return Err(Stop::Unmodelled("arith on strings".into())),
            }),
            (Value::Bool(a), Value::Bool(b)) => Ok(match op {
                BinOp::Eq => Value::Bool(a == b),
                BinOp::Ne => Value::Bool(a != b),
                _ => return Err(Stop::Unmodelled("op on bools".into())),
            }),
            (Value::Unit, Value::Unit) => Ok(match op {
                BinOp::Eq => Value::Bool(true),
                BinOp::Ne => Value::Bool(false),
                _ => return Err(Stop::Unmodelled("op on unit".into())),
            }),
            _ => Err(Stop::Unmodelled("binary operator on unsupported operands".into())),
        }
    }

    pub fn match_pat(&self, p: &Pat, v: &Value, binds: &mut Vec<(String, Value)>) -> Result<bool, Stop> {
        Ok(match (p, v) {
            (Pat::Wild, _) => true,
            (Pat::Var(n), _) => {
                binds.push((n.clone(), v.clone()));
                true
            }
            (Pat::Unit, Value::Unit) => true,
            (Pat::Bool(b), Value::Bool(x)) => b == x,
            (Pat::Int(_, n, _), Value::Int(_, x)) => n == x,
            (Pat::Str(s), Value::Str(x)) => s.as_str() == x.as_str(),
            (Pat::Tuple(ps), Value::Tuple(vs)) if ps.len() == vs.len() => {
                for (q, x) in ps.iter().zip(vs.iter()) {
                    if !self.match_pat(q, x, binds)? {
                        return Ok(false);
                    }
                }
                true
            }
            (Pat::Struct { fields, .. }, Value::Struct(sv)) => {
                for (f, q) in fields {
                    let Some((_, x)) = sv.fields.iter().find(|(n, _)| n == f) else {
                        return Err(Stop::Unmodelled(format!("struct pattern names unknown field {}", f)));
                    };
                    if !self.match_pat(q, x, binds)? {
                        return Ok(false);
                    }
                }
                true
            }
            (Pat::Constr { variant, args, .. }, Value::Enum(ev)) => {
                if &ev.variant != variant {
                    return Ok(false);
                }
                if args.len() != ev.args.len() {
                    return Err(Stop::Unmodelled("constructor pattern arity".into()));
                }
                for (q, x) in args.iter().zip(ev.args.iter()) {
                    if !self.match_pat(q, x, binds)? {
                        return Ok(false);
                    }
                }
                true
            }
            _ => return Err(Stop::Unmodelled("pattern / value shape mismatch".into())),
        })
    }

    fn eval_args(&mut self, args: &[Expr], env: &Env, tenv: &Rc<Vec<(String, Ty)>>) -> Result<Vec<Value>, Stop> {
        let mut out = Vec::with_capacity(args.len());
        for a in args {
            out.push(self.eval(a, env, tenv)?);
        }
        Ok(out)
    }

    pub fn eval(&mut self, e: &Expr, env: &Env, tenv: &Rc<Vec<(String, Ty)>>) -> R {
        self.tick()?;
        match e {
            Expr::Unit => Ok(Value::Unit),
            Expr::Bool(b) => Ok(Value::Bool(*b)),
            Expr::Int(t, v, _) => Ok(Value::Int(*t, *v)),
            Expr::Float(is32, v) => Ok(if *is32 { Value::F32(*v as f32) } else { Value::F64(*v) }),
            Expr::Str(s) => Ok(Value::Str(Rc::new(s.clone()))),
            Expr::Var(n) => env_get(env, n).ok_or_else(|| Stop::Unmodelled(format!("unbound variable {}", n))),
            Expr::FnRef(n) => {
                if self.fns.contains_key(n.as_str()) {
                    Ok(Value::FnRef(n.clone()))
                } else {
                    Ok(Value::BuiltinRef(n.clone()))
                }
            }
            Expr::Tuple(es) => Ok(Value::Tuple(Rc::new(self.eval_args(es, env, tenv)?))),
            Expr::Array(es) => Ok(Value::Array(Rc::new(self.eval_args(es, env, tenv)?))),
            Expr::StructLit { ty, fields, .. } => {
                let mut fs = Vec::new();
                for (n, x) in fields {
                    fs.push((n.clone(), self.eval(x, env, tenv)?));
                }
                Ok(Value::Struct(Rc::new(StructVal { ty: ty.subst(tenv), fields: fs })))
            }
            Expr::Constr { variant, ty, args, .. } => {
                let vs = self.eval_args(args, env, tenv)?;
                Ok(Value::Enum(Rc::new(EnumVal { ty: ty.subst(tenv), variant: variant.clone(), args: vs })))
            }
            Expr::Field(b, f) => match self.eval(b, env, tenv)? {
                Value::Struct(sv) => sv.fields.iter().find(|(n, _)| n == f).map(|(_, v)| v.clone()).ok_or_else(|| Stop::Unmodelled(format!("no field {}", f))),
                _ => Err(Stop::Unmodelled("field access on non-struct".into())),
            },
            Expr::Proj(b, i) => match self.eval(b, env, tenv)? {
                Value::Tuple(vs) => vs.get(*i).cloned().ok_or_else(|| Stop::Unmodelled("tuple index".into())),
                _ => Err(Stop::Unmodelled("projection on non-tuple".into())),
            },
            Expr::Unary(op, x) => {
                let v = self.eval(x, env, tenv)?;
                match (op, v) {
                    (UnOp::Neg, Value::Int(t, a)) => Ok(Value::Int(t, t.wrap(-a))),
                    (UnOp::Neg, Value::F64(a)) => Ok(Value::F64(-a)),
                    (UnOp::Neg, Value::F32(a)) => Ok(Value::F32(-a)),
                    (UnOp::Not, Value::Bool(b)) => Ok(Value::Bool(!b)),
                    _ => Err(Stop::Unmodelled("unary operator on unsupported operand".into())),
                }
            }
            Expr::Binary(BinOp::And, l, r) => match self.eval(l, env, tenv)? {
                Value::Bool(false) => Ok(Value::Bool(false)),
                Value::Bool(true) => self.eval(r, env, tenv),
                _ => Err(Stop::Unmodelled("&& on non-bool".into())),
            },
            Expr::Binary(BinOp::Or, l, r) => match self.eval(l, env, tenv)? {
                Value::Bool(true) => Ok(Value::Bool(true)),
                Value::Bool(false) => self.eval(r, env, tenv),
                _ => Err(Stop::Unmodelled("|| on non-bool".into())),
            },
            Expr::Binary(op, l, r) => {
                let a = self.eval(l, env, tenv)?;
                let b = self.eval(r, env, tenv)?;
                self.binop(*op, a, b)
            }
            Expr::If(c, t, f) => match self.eval(c, env, tenv)? {
                Value::Bool(true) => self.eval(t, env, tenv),
                Value::Bool(false) => self.eval(f, env, tenv),
                _ => Err(Stop::Unmodelled("if on non-bool".into())),
            },
            Expr::While(c, b) => {
                loop {
                    match self.eval(c, env, tenv)? {
                        Value::Bool(true) => {
                            self.eval(b, env, tenv)?;
                        }
                        Value::Bool(false) => break,
                        _ => return Err(Stop::Unmodelled("while on non-bool".into())),
                    }
                }
                Ok(Value::Unit)
            }
            Expr::Block(stmts, tail) => {
                let mut env = env.clone();
                for s in stmts {
                    match s {
                        Stmt::Let(p, _, x) => {
                            let v = self.eval(x, &env, tenv)?;
                            let mut binds = Vec::new();
                            if !self.match_pat(p, &v, &mut binds)? {
                                return Err(Stop::Fail("missing-match".into()));
                            }
                            for (n, v) in binds {
                                env = env_push(&env, &n, v);
                            }
                        }
                        Stmt::Expr(x) => {
                            self.eval(x, &env, tenv)?;
                        }
                    }
                }
                match tail {
                    Some(t) => self.eval(t, &env, tenv),
                    None => Ok(Value::Unit),
                }
            }
            Expr::Match(s, arms) => {
                let v = self.eval(s, env, tenv)?;
                for (p, b) in arms {
                    let mut binds = Vec::new();
                    if self.match_pat(p, &v, &mut binds)? {
                        let mut env = env.clone();
                        for (n, v) in binds {
                            env = env_push(&env, &n, v);
                        }
                        return self.eval(b, &env, tenv);
                    }
                }
                Err(Stop::Fail("missing-match".into()))
            }
            Expr::Call { name, targs, args } => {
                let vs = self.eval_args(args, env, tenv)?;
                let t2: Vec<(String, Ty)> = targs.iter().map(|(n, t)| (n.clone(), t.subst(tenv))).collect();
                self.call_named(name, &t2, vs)
            }
            Expr::Builtin(name, args) => {
                let vs = self.eval_args(args, env, tenv)?;
                self.builtin(name, vs)
            }
            Expr::CallValue(f, args) => {
                let fv = self.eval(f, env, tenv)?;
                let vs = self.eval_args(args, env, tenv)?;
                self.apply(&fv, vs)
            }
            Expr::Closure { params, body } => Ok(Value::Closure(Rc::new(ClosureVal {
                params: params.iter().map(|(n, _)| n.clone()).collect(),
                body: (**body).clone(),
                env: env.clone(),
                tenv: tenv.clone(),
            }))),
            Expr::MethodCall { recv, method, args } => {
                let rv = self.eval(recv, env, tenv)?;
                let mut vs = vec![rv.clone()];
                vs.extend(self.eval_args(args, env, tenv)?);
                let Some(rt) = type_of(&rv) else {
                    return Err(Stop::Unmodelled("method call on a value without a nominal type".into()));
                };
                // inherent first, then any trait providing the method for this type
                if let Some((m, te)) = self.find_impl_method(None, &rt, method) {
                    return self.call_decl(m, te, vs);
                }
                let traits: Vec<String> = self.prog.items.iter().filter_map(|i| if let Item::Trait(t) = i { Some(t.name.clone()) } else { None }).collect();
                let mut found = None;
                for t in &traits {
                    if let Some(x) = self.find_impl_method(Some(t), &rt, method) {
                        if found.is_some() {
                            return Err(Stop::Unmodelled("ambiguous method".into()));
                        }
                        found = Some(x);
                    }
                }
                match found {
                    Some((m, te)) => self.call_decl(m, te, vs),
                    None => Err(Stop::Unmodelled(format!("no method {} for {}", method, rt.src()))),
                }
            }
            Expr::AssocCall { head, method, args } => {
                let vs = self.eval_args(args, env, tenv)?;
                let Some(rt) = vs.first().and_then(type_of) else {
                    return Err(Stop::Unmodelled("assoc call without nominal receiver".into()));
                };
                let is_trait = self.prog.find_trait(head).is_some();
                let found = if is_trait { self.find_impl_method(Some(head), &rt, method) } else { self.find_impl_method(None, &rt, method) };
                match found {
                    Some((m, te)) => self.call_decl(m, te, vs),
                    None => Err(Stop::Unmodelled(format!("no impl of {}::{} for {}", head, method, rt.src()))),
                }
            }
            Expr::ToDyn(_, x) => self.eval(x, env, tenv),
            Expr::Paren(x) => self.eval(x, env, tenv),
            Expr::Go(x) => {
                let fv = self.eval(x, env, tenv)?;
                self.spawns += 1;
                if self.record_events {
                    self.events.push(Ev::Spawn);
                }
                // reference schedule: the spawned activation runs to completion at the spawn point.
                // Programs using `go` are generated so that their stdout is schedule independent.
                self.apply(&fv, Vec::new())?;
                Ok(Value::Unit)
            }
        }
    }

    fn builtin(&mut self, name: &str, args: Vec<Value>) -> R {
        let arg = |i: usize| -> Result<&Value, Stop> { args.get(i).ok_or_else(|| Stop::Unmodelled(format!("builtin {} arity", name))) };
        match name {
            "string_println" => {
                if let Value::Str(s) = arg(0)? {
                    let s = format!("{}\n", s);
                    self.print(&s);
                    return Ok(Value::Unit);
                }
            }
            "string_print" => {
                if let Value::Str(s) = arg(0)? {
                    let s = s.to_string();
                    self.print(&s);
                    return Ok(Value::Unit);
                }
            }
            "unit_to_string" => return Ok(Value::Str(Rc::new("()".into()))),
            "bool_to_string" | "bool_to_json" => {
                if let Value::Bool(b) = arg(0)? {
                    return Ok(Value::Str(Rc::new(b.to_string())));
                }
            }
            "int8_to_string" | "int16_to_string" | "int32_to_string" | "int64_to_string" | "uint8_to_string" | "uint16_to_string" | "uint32_to_string" | "uint64_to_string" => {
                if let Value::Int(t, v) = arg(0)? {
                    if format!("{}_to_string", t.name()) == name {
                        return Ok(Value::Str(Rc::new(v.to_string())));
                    }
                }
            }
            "string_len" => {
                if let Value::Str(s) = arg(0)? {
                    return Ok(Value::Int(IntTy::I32, IntTy::I32.wrap(s.len() as i128)));
                }
            }
            "string_get" => {
                if let (Value::Str(s), Value::Int(_, i)) = (arg(0)?, arg(1)?) {
                    if *i < 0 || *i as usize >= s.len() {
                        return Err(Stop::Fail("index-out-of-range".into()));
                    }
                    return Ok(Value::Str(Rc::new(byte_to_string(s.as_bytes()[*i as usize]))));
                }
            }
            "array_get" => {
                if let (Value::Array(a), Value::Int(_, i)) = (arg(0)?, arg(1)?) {
                    if *i < 0 || *i as usize >= a.len() {
                        return Err(Stop::Fail("index-out-of-range".into()));
                    }
                    return Ok(a[*i as usize].clone());
                }
            }
            "array_set" => {
                if let (Value::Array(a), Value::Int(_, i)) = (arg(0)?, arg(1)?) {
                    if *i < 0 || *i as usize >= a.len() {
                        return Err(Stop::Fail("index-out-of-range".into()));
                    }
                    let mut n = (**a).clone();
                    n[*i as usize] = arg(2)?.clone();
                    return Ok(Value::Array(Rc::new(n)));
                }
            }
            "ref" => {
                let id = self.next_ref;
                self.next_ref += 1;
                if self.record_events {
                    self.events.push(Ev::RefNew(id));
                }
                return Ok(Value::Ref(Rc::new(RefCell::new(arg(0)?.clone())), id));
            }
            "ref_get" => {
                if let Value::Ref(c, id) = arg(0)? {
                    if self.record_events {
                        self.events.push(Ev::RefGet(*id));
                    }
                    return Ok(c.borrow().clone());
                }
            }
            "ref_set" => {
                if let Value::Ref(c, id) = arg(0)? {
                    if self.record_events {
                        self.events.push(Ev::RefSet(*id));
                    }
                    *c.borrow_mut() = arg(1)?.clone();
                    return Ok(Value::Unit);
                }
            }
            "vec_new" => return Ok(Value::Vector(Rc::new(Vec::new()))),
            "vec_push" => {
                if let Value::Vector(v) = arg(0)? {
                    let mut n = (**v).clone();
                    n.push(arg(1)?.clone());
                    return Ok(Value::Vector(Rc::new(n)));
                }
            }
            "vec_get" => {
                if let (Value::Vector(v), Value::Int(_, i)) = (arg(0)?, arg(1)?) {
                    if *i < 0 || *i as usize >= v.len() {
                        return Err(Stop::Fail("index-out-of-range".into()));
                    }
                    return Ok(v[*i as usize].clone());
                }
            }
            "vec_len" => {
                if let Value::Vector(v) = arg(0)? {
                    return Ok(Value::Int(IntTy::I32, v.len() as i128));
                }
            }
            _ => {}
        }
        Err(Stop::Unmodelled(format!("builtin {} not modelled for these arguments", name)))
    }
}

pub fn run_program(prog: &Program, budget: u64) -> Outcome {
    Interp::new(prog, budget).run_main()
}
