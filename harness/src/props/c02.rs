//! C02: every accepted program yields Go that the Go compiler would accept.
//! Oracle: gomini's static checker (calibrated on the corpus goldens and on negative controls).
use crate::capi;
use crate::diff::{self, DiffOpts, Outcome};
use crate::gl::ast::PrintOpts;
use crate::gl::pgen::{Features, generate};
use crate::goexec::{self, Vet};
use crate::runner::{self, Case, Ctx, PropSpec};
use crate::util::{self, Rng, hash_str};
use serde_json::json;

pub static SPEC: PropSpec = PropSpec {
    id: "C02",
    level: "exploration",
    rule: "programs: the 74 corpus programs and 8 corpus projects compiled now, plus type-directed generated programs over the feature lattice (clean lattice for the gate; pinned witnesses for recorded findings); every emitted Go text is parsed and statically checked by gomini vet; a program is non-trivial when the compiler accepted it and its Go text has >= 30 lines; distinct by hash of the Go text",
    eval_counter: "programs",
    assumptions: &[
        "gomini vet decides 'would the Go compiler accept this text' for the emitted subset; it is calibrated on the 74 golden Go files (73 accepted by real Go, 058 rejected by real Go - vet agrees on all) and on 144 negative controls; anything it is not certain of is Unsupported => inconclusive",
    ],
    crash_is_violation: false,
    stack_mib: 256,
    case_cpu_s: 60,
    shards: 0,
    run,
    floors: &[("accepted", 300, 20_000), ("valid_go", 300, 20_000), ("corpus_goldens_vetted", 74, 74)],
    finish: None,
};

/// Shape of a Go source line: identifiers -> I, numbers -> N, strings -> S (stable signature of "which emission pattern is invalid").
pub fn line_shape(line: &str) -> String {
    let mut out = String::new();
    let cs: Vec<char> = line.chars().collect();
    let mut i = 0;
    while i < cs.len() {
        let c = cs[i];
        if c.is_ascii_alphabetic() || c == '_' {
            let st = i;
            while i < cs.len() && (cs[i].is_ascii_alphanumeric() || cs[i] == '_') {
                i += 1;
            }
            let w: String = cs[st..i].iter().collect();
            match w.as_str() {
                "var" | "func" | "return" | "if" | "else" | "switch" | "case" | "default" | "for" | "break" | "go" | "struct" | "type" | "nil" | "true" | "false" | "any" | "append"
                | "len" | "panic" | "missing" | "int8" | "int16" | "int32" | "int64" | "uint8" | "uint16" | "uint32" | "uint64" | "float32" | "float64" | "string" | "bool" => out.push_str(&w),
                _ => out.push('I'),
            }
        } else if c.is_ascii_digit() {
            while i < cs.len() && (cs[i].is_ascii_alphanumeric() || cs[i] == '.') {
                i += 1;
            }
            out.push('N');
        } else if c == '"' {
            i += 1;
            while i < cs.len() && cs[i] != '"' {
                if cs[i] == '\\' {
                    i += 1;
                }
                i += 1;
            }
            i += 1;
            out.push('S');
        } else {
            if !c.is_whitespace() {
                out.push(c);
            } else if !out.ends_with(' ') {
                out.push(' ');
            }
            i += 1;
        }
    }
    util::truncate(out.trim(), 80)
}

pub fn vet_text(case: &mut Case, label: &str, src: &str, go: &str) {
    let gp = goexec::parse(go);
    match goexec::vet(&gp) {
        Vet::Accept => {
            case.count("valid_go", 1);
            if go.lines().count() >= 30 {
                case.nontrivial(hash_str(go));
            }
        }
        Vet::Unsupported(u) => {
            case.count("vet_unsupported", 1);
            case.inconclusive(format!("gomini vet unsupported: {}", util::truncate(&u, 100)));
        }
        Vet::Reject(errs) => {
            let (kind, line, msg) = errs[0].clone();
            let go_line = go.lines().nth(line.saturating_sub(1) as usize).unwrap_or("").trim().to_string();
            case.violation(
                format!("invalid-go:{}:{}", kind, line_shape(&go_line)),
                format!("accepted program yields Go that the Go compiler rejects: [{}] {} at `{}`", kind, util::truncate(&msg, 160), util::truncate(&go_line, 120)),
                json!({"label": label, "source": src, "go_line": go_line, "vet_errors": errs.iter().take(5).map(|(k,l,m)| json!({"kind":k,"line":l,"msg":m})).collect::<Vec<_>>(), "go": util::truncate(go, 20000)}),
            );
        }
    }
}

pub fn check_source(case: &mut Case, label: &str, src: &str) {
    runner::note_input(src);
    case.count("programs", 1);
    match runner::guard(|| capi::compile_single(src).map(|c| capi::go_text(&c))) {
        Ok(Ok(go)) => {
            case.count("accepted", 1);
            vet_text(case, label, src, &go);
        }
        Ok(Err(_)) => case.count("rejected", 1),
        Err(p) => {
            case.count("compiler_panics", 1);
            case.inconclusive(format!("compiler panic at {} (a C04 event)", p.site));
        }
    }
}

fn run(ctx: &mut Ctx) {
    let tier = ctx.tier;
    let seed = ctx.seed;
    if let Some(rep) = ctx.replay_input.clone() {
        let src = rep["record"]["detail"]["source"].as_str().unwrap_or("").to_string();
        ctx.case("replay", |c| check_source(c, "replay", &src));
        return;
    }
    // corpus: goldens as stored (calibration of the oracle) and as compiled now
    for (i, d) in crate::goldens::pipeline_dirs().into_iter().enumerate() {
        if !ctx.mine(i as u64) {
            continue;
        }
        let name = d.file_name().unwrap().to_string_lossy().to_string();
        let src = std::fs::read_to_string(d.join("main.gom")).unwrap_or_default();
        let golden = std::fs::read_to_string(d.join("main.gom.go")).unwrap_or_default();
        let out = std::fs::read_to_string(d.join("main.gom.out")).unwrap_or_default();
        let real_go_rejected = out.starts_with("# command-line-arguments");
        ctx.case(&format!("corpus/{}", name), |c| {
            // calibration: vet must agree with what real Go did to the stored golden
            let gp = goexec::parse(&golden);
            let v = goexec::vet(&gp);
            c.count("corpus_goldens_vetted", 1);
            match (&v, real_go_rejected) {
                (Vet::Accept, false) | (Vet::Reject(_), true) => c.count("calibration_agrees_with_real_go", 1),
                _ => {
                    c.count("calibration_disagrees_with_real_go", 1);
                    c.inconclusive(format!("gomini vet disagrees with real Go on golden {}: {:?}", name, v));
                }
            }
            if real_go_rejected {
                // the recorded output IS a Go compile error: witness of a recorded finding, checked below like any program
            }
            check_source(c, &format!("corpus/{}", name), &src);
            c.sample(json!({"workload":"corpus","program":name}));
        });
    }
    for (i, (id, text)) in util::known_witnesses("C02").iter().enumerate() {
        if ctx.mine(i as u64) {
            ctx.case(&format!("witness/{}", id), |c| check_source(c, &format!("witness/{}", id), text));
        }
    }
    // extern "go" bindings: every way a package can be referenced only from particular statement forms
    // (tail calls, branches, match arms, let-bound, nested arguments); the import must survive pruning
    {
        let prelude = "extern type Time\nextern type Duration\nextern \"go\" \"time\" unix(secs: int64, nanos: int64) -> Time\nextern \"go\" \"time\" duration(nanos: int32) -> Duration\n";
        let bodies: [(&str, &str); 10] = [
            ("discarded-conversion", "fn main() -> unit {\n    let _ = duration(7);\n    let _ = string_println(\"ok\");\n    ()\n}\n"),
            ("unused-conversion-in-loop", "fn main() -> unit {\n    let k = ref(0);\n    while ref_get(k) < 2 {\n        let d = duration(ref_get(k));\n        let _ = ref_set(k, ref_get(k) + 1);\n    };\n    let _ = string_println(\"ok\");\n    ()\n}\n"),
            ("tail-call-wrapper", "fn epoch() -> Time { unix(946684800i64, 0i64) }\nfn main() -> unit {\n    let a = epoch();\n    let _ = string_println(\"ok\");\n    ()\n}\n"),
            ("tail-calls-in-if-branches", "fn pick(c: bool) -> Time { if c { unix(1i64, 0i64) } else { unix(2i64, 0i64) } }\nfn main() -> unit {\n    let a = pick(true);\n    let _ = string_println(\"ok\");\n    ()\n}\n"),
            ("tail-calls-in-match-arms", "fn span(n: int32) -> Duration { match n { 0 => duration(5), _ => duration(n) } }\nfn main() -> unit {\n    let a = span(3);\n    let _ = string_println(\"ok\");\n    ()\n}\n"),
            ("let-bound-call", "fn main() -> unit {\n    let a = unix(1i64, 2i64);\n    let _ = string_println(\"ok\");\n    ()\n}\n"),
            ("discarded-call", "fn main() -> unit {\n    let _ = unix(7i64, 0i64);\n    let _ = string_println(\"ok\");\n    ()\n}\n"),
            ("call-in-tuple", "fn both() -> (Time, Duration) { (unix(1i64, 2i64), duration(3)) }\nfn main() -> unit {\n    let (a, b) = both();\n    let _ = string_println(\"ok\");\n    ()\n}\n"),
            ("call-in-closure", "fn main() -> unit {\n    let f = |n: int64| unix(n, 0i64);\n    let d = f(4i64);\n    let _ = string_println(\"ok\");\n    ()\n}\n"),
            ("call-in-loop", "fn main() -> unit {\n    let k = ref(0);\n    while ref_get(k) < 2 {\n        let d = unix(8i64, 0i64);\n        let _ = ref_set(k, ref_get(k) + 1);\n    };\n    let _ = string_println(\"ok\");\n    ()\n}\n"),
        ];
        for (i, (name, body)) in bodies.iter().enumerate() {
            if ctx.mine(40_000 + i as u64) {
                let src = format!("{}{}", prelude, body);
                ctx.case(&format!("extern/{}", name), |c| {
                    check_source(c, &format!("extern/{}", name), &src);
                    c.count("extern_templates", 1);
                    c.nontrivial(hash_str(&src));
                });
            }
        }
    }
    // `go` statements: the spawned closure written inline, bound by a let, bound and shadowed, capturing, bound by a
    // tuple pattern, spawned twice, spawned inside a loop and inside a branch
    {
        let wait = "    while ref_get(done) < N {\n    };\n    let _ = string_println(int32_to_string(ref_get(done)));\n    ()\n}\n";
        let bodies: [(&str, String, i32); 8] = [
            ("inline", "fn main() -> unit {\n    let done = ref(0);\n    go || { ref_set(done, ref_get(done) + 1) };\n".into(), 1),
            ("let-bound", "fn main() -> unit {\n    let done = ref(0);\n    let worker = || { ref_set(done, ref_get(done) + 1) };\n    go worker;\n".into(), 1),
            ("let-bound-spawned-twice", "fn main() -> unit {\n    let done = ref(0);\n    let worker = || { ref_set(done, ref_get(done) + 1) };\n    go worker;\n    go worker;\n".into(), 2),
            ("shadowed", "fn main() -> unit {\n    let done = ref(0);\n    let worker = || { ref_set(done, ref_get(done) + 10) };\n    let worker = || { ref_set(done, ref_get(done) + 1) };\n    go worker;\n".into(), 1),
            ("capturing-a-parameter", "fn spawn(done: Ref[int32], k: int32) -> unit {\n    let job = || { ref_set(done, ref_get(done) + k) };\n    go job;\n    ()\n}\nfn main() -> unit {\n    let done = ref(0);\n    let _ = spawn(done, 1);\n".into(), 1),
            ("tuple-bound", "fn main() -> unit {\n    let done = ref(0);\n    let (worker, n) = (|| { ref_set(done, ref_get(done) + 1) }, 3);\n    go worker;\n".into(), 1),
            ("in-a-loop", "fn main() -> unit {\n    let done = ref(0);\n    let worker = || { ref_set(done, ref_get(done) + 1) };\n    let k = ref(0);\n    while ref_get(k) < 2 {\n        go worker;\n        let _ = ref_set(k, ref_get(k) + 1);\n    };\n".into(), 2),
            ("in-a-branch", "fn main() -> unit {\n    let done = ref(0);\n    let worker = || { ref_set(done, ref_get(done) + 1) };\n    if ref_get(done) == 0 {\n        go worker;\n    } else {\n        ()\n    };\n".into(), 1),
        ];
        for (i, (name, head, n)) in bodies.iter().enumerate() {
            if ctx.mine(41_000 + i as u64) {
                let src = format!("{}{}", head, wait.replace("N", &n.to_string()));
                ctx.case(&format!("go-statement/{}", name), |c| {
                    check_source(c, &format!("go-statement/{}", name), &src);
                    c.count("go_templates", 1);
                    c.nontrivial(hash_str(&src));
                });
            }
        }
    }
    // generated programs (clean lattice)
    let n = tier.pickn(800u64, 60_000u64) / ctx.nshards as u64 + 1;
    let opts = DiffOpts { prop: "C02", vet_is_violation: true, budget: 400_000, print: PrintOpts::default() };
    for i in 0..n {
        let mut rng = Rng::keyed(seed, "c02-gen", ctx.shard as u64, i);
        let mut f = Features::base();
        f.n_fns = 3 + rng.below(5);
        f.ident_mode = if rng.chance(1, 5) { 1 } else { 0 };
        let (prog, mut tags) = generate(&mut rng, f);
        // every fourth program has its identifiers (all namespaces) replaced by Go keywords and
        // predeclared names: the emitted text must stay valid
        let prog = if i % 4 == 3 {
            tags.insert("keyword_renamed");
            let ren = crate::props::c19::keyword_renaming(&prog, &mut rng);
            ren.program(&prog)
        } else {
            prog
        };
        let label = format!("gen/{}/{}", ctx.shard, i);
        ctx.case(&label.clone(), |c| {
            let o = diff::run_diff(c, &prog, &label, &opts);
            for t in &tags {
                c.count(&format!("tag:{}", t), 1);
            }
            match o {
                Outcome::Agree { .. } => {
                    c.nontrivial(hash_str(&crate::gl::ast::print_program(&prog, PrintOpts::default())));
                }
                Outcome::Inconclusive(r) => c.inconclusive(crate::diff::msg_class(&r)),
                _ => {}
            }
            if i < 2 {
                c.sample(json!({"workload":"generated","source": util::truncate(&crate::gl::ast::print_program(&prog, PrintOpts::default()), 1500)}));
            }
        });
    }
    capi::cleanup_scratch();
}
