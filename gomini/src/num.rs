//! Arbitrary precision integers and rationals for exact evaluation of Go
//! untyped constant expressions.
//!
//! Go evaluates constant expressions exactly (go/constant uses big.Int and
//! big.Rat, switching to a 512-bit big.Float only for very large values).  We
//! keep exact values and refuse (caller reports Unsupported) when a value gets
//! larger than `MAX_BITS` bits, which is far below the point where go/constant
//! would change representation (4096 bits).

use std::cmp::Ordering;

/// Values with more bits than this are refused by the callers.
pub const MAX_BITS: u64 = 4000;

#[derive(Clone, Debug, PartialEq, Eq, Hash)]
pub struct BigInt {
    neg: bool,
    /// little endian base 2^32 limbs, no trailing zero limbs; empty == 0
    mag: Vec<u32>,
}

fn trim(v: &mut Vec<u32>) {
    while let Some(&0) = v.last() {
        v.pop();
    }
}

fn cmp_mag(a: &[u32], b: &[u32]) -> Ordering {
    if a.len() != b.len() {
        return a.len().cmp(&b.len());
    }
    for i in (0..a.len()).rev() {
        if a[i] != b[i] {
            return a[i].cmp(&b[i]);
        }
    }
    Ordering::Equal
}

fn add_mag(a: &[u32], b: &[u32]) -> Vec<u32> {
    let (a, b) = if a.len() >= b.len() { (a, b) } else { (b, a) };
    let mut out = Vec::with_capacity(a.len() + 1);
    let mut carry = 0u64;
    for i in 0..a.len() {
        let s = a[i] as u64 + if i < b.len() { b[i] as u64 } else { 0 } + carry;
        out.push(s as u32);
        carry = s >> 32;
    }
    if carry != 0 {
        out.push(carry as u32);
    }
    out
}

/// a - b, requires a >= b
fn sub_mag(a: &[u32], b: &[u32]) -> Vec<u32> {
    let mut out = Vec::with_capacity(a.len());
    let mut borrow = 0i64;
    for i in 0..a.len() {
        let mut d = a[i] as i64 - borrow - if i < b.len() { b[i] as i64 } else { 0 };
        if d < 0 {
            d += 1 << 32;
            borrow = 1;
        } else {
            borrow = 0;
        }
        out.push(d as u32);
    }
    debug_assert!(borrow == 0);
    trim(&mut out);
    out
}

fn mul_mag(a: &[u32], b: &[u32]) -> Vec<u32> {
    if a.is_empty() || b.is_empty() {
        return Vec::new();
    }
    let mut out = vec![0u32; a.len() + b.len()];
    for i in 0..a.len() {
        let mut carry = 0u64;
        let ai = a[i] as u64;
        for j in 0..b.len() {
            let t = ai * (b[j] as u64) + out[i + j] as u64 + carry;
            out[i + j] = t as u32;
            carry = t >> 32;
        }
        let mut k = i + b.len();
        while carry != 0 {
            let t = out[k] as u64 + carry;
            out[k] = t as u32;
            carry = t >> 32;
            k += 1;
        }
    }
    trim(&mut out);
    out
}

fn divrem_small(a: &[u32], d: u32) -> (Vec<u32>, u32) {
    let mut out = vec![0u32; a.len()];
    let mut rem = 0u64;
    for i in (0..a.len()).rev() {
        let cur = (rem << 32) | a[i] as u64;
        out[i] = (cur / d as u64) as u32;
        rem = cur % d as u64;
    }
    trim(&mut out);
    (out, rem as u32)
}

fn shl_mag(a: &[u32], n: u64) -> Vec<u32> {
    if a.is_empty() {
        return Vec::new();
    }
    let limbs = (n / 32) as usize;
    let bits = (n % 32) as u32;
    let mut out = vec![0u32; limbs];
    if bits == 0 {
        out.extend_from_slice(a);
    } else {
        let mut carry = 0u32;
        for &x in a {
            out.push((x << bits) | carry);
            carry = x >> (32 - bits);
        }
        if carry != 0 {
            out.push(carry);
        }
    }
    out
}

fn shr_mag(a: &[u32], n: u64) -> Vec<u32> {
    let limbs = (n / 32) as usize;
    let bits = (n % 32) as u32;
    if limbs >= a.len() {
        return Vec::new();
    }
    let src = &a[limbs..];
    let mut out = Vec::with_capacity(src.len());
    if bits == 0 {
        out.extend_from_slice(src);
    } else {
        for i in 0..src.len() {
            let hi = if i + 1 < src.len() { src[i + 1] } else { 0 };
            out.push((src[i] >> bits) | (hi << (32 - bits)));
        }
    }
    trim(&mut out);
    out
}

fn bitlen_mag(a: &[u32]) -> u64 {
    match a.last() {
        None => 0,
        Some(&top) => (a.len() as u64 - 1) * 32 + (32 - top.leading_zeros() as u64),
    }
}

/// Schoolbook long division (Knuth algorithm D). Returns (quotient, remainder).
fn divrem_mag(a: &[u32], b: &[u32]) -> (Vec<u32>, Vec<u32>) {
    assert!(!b.is_empty());
    if cmp_mag(a, b) == Ordering::Less {
        return (Vec::new(), a.to_vec());
    }
    if b.len() == 1 {
        let (q, r) = divrem_small(a, b[0]);
        let mut rv = vec![r];
        trim(&mut rv);
        return (q, rv);
    }
    // normalise
    let shift = b[b.len() - 1].leading_zeros() as u64;
    let v = shl_mag(b, shift);
    let mut u = shl_mag(a, shift);
    if u.len() == a.len() {
        u.push(0);
    }
    let n = v.len();
    let m = u.len() - n - 1;
    let mut q = vec![0u32; m + 1];
    let base: u64 = 1 << 32;
    let vtop = v[n - 1] as u64;
    let vsec = v[n - 2] as u64;
    for j in (0..=m).rev() {
        let num = ((u[j + n] as u64) << 32) | u[j + n - 1] as u64;
        let mut qhat = num / vtop;
        let mut rhat = num % vtop;
        while qhat >= base || qhat * vsec > ((rhat << 32) | u[j + n - 2] as u64) {
            qhat -= 1;
            rhat += vtop;
            if rhat >= base {
                break;
            }
        }
        // multiply and subtract
        let mut borrow: i64 = 0;
        let mut carry: u64 = 0;
        for i in 0..n {
            let p = qhat * v[i] as u64 + carry;
            carry = p >> 32;
            let t = u[i + j] as i64 - borrow - (p & 0xffff_ffff) as i64;
            if t < 0 {
                u[i + j] = (t + (1i64 << 32)) as u32;
                borrow = 1;
            } else {
                u[i + j] = t as u32;
                borrow = 0;
            }
        }
        let t = u[j + n] as i64 - borrow - carry as i64;
        if t < 0 {
            u[j + n] = (t + (1i64 << 32)) as u32;
            // add back
            qhat -= 1;
            let mut c = 0u64;
            for i in 0..n {
                let s = u[i + j] as u64 + v[i] as u64 + c;
                u[i + j] = s as u32;
                c = s >> 32;
            }
            u[j + n] = (u[j + n] as u64 + c) as u32;
        } else {
            u[j + n] = t as u32;
        }
        q[j] = qhat as u32;
    }
    trim(&mut q);
    u.truncate(n);
    trim(&mut u);
    let r = shr_mag(&u, shift);
    (q, r)
}

impl BigInt {
    pub fn zero() -> BigInt {
        BigInt { neg: false, mag: Vec::new() }
    }
    pub fn one() -> BigInt {
        BigInt::from_u64(1)
    }
    pub fn from_u64(v: u64) -> BigInt {
        let mut mag = vec![v as u32, (v >> 32) as u32];
        trim(&mut mag);
        BigInt { neg: false, mag }
    }
    pub fn from_i64(v: i64) -> BigInt {
        let mut b = BigInt::from_u64(v.unsigned_abs());
        b.neg = v < 0;
        b
    }
    pub fn from_u128(v: u128) -> BigInt {
        let mut mag = vec![v as u32, (v >> 32) as u32, (v >> 64) as u32, (v >> 96) as u32];
        trim(&mut mag);
        BigInt { neg: false, mag }
    }
    fn from_mag(neg: bool, mag: Vec<u32>) -> BigInt {
        let neg = neg && !mag.is_empty();
        BigInt { neg, mag }
    }
    /// digits must be valid digits for the radix (no underscores).
    pub fn parse_radix(digits: &str, radix: u32) -> Option<BigInt> {
        let mut mag: Vec<u32> = Vec::new();
        for c in digits.chars() {
            let d = c.to_digit(radix)?;
            // mag = mag * radix + d
            let mut carry = d as u64;
            for limb in mag.iter_mut() {
                let t = (*limb as u64) * radix as u64 + carry;
                *limb = t as u32;
                carry = t >> 32;
            }
            if carry != 0 {
                mag.push(carry as u32);
            }
        }
        trim(&mut mag);
        Some(BigInt { neg: false, mag })
    }
    pub fn is_zero(&self) -> bool {
        self.mag.is_empty()
    }
    pub fn is_neg(&self) -> bool {
        self.neg
    }
    pub fn sign(&self) -> i32 {
        if self.mag.is_empty() {
            0
        } else if self.neg {
            -1
        } else {
            1
        }
    }
    pub fn bit_len(&self) -> u64 {
        bitlen_mag(&self.mag)
    }
    pub fn is_odd(&self) -> bool {
        self.mag.first().map_or(false, |l| l & 1 == 1)
    }
    pub fn neg(&self) -> BigInt {
        BigInt::from_mag(!self.neg, self.mag.clone())
    }
    pub fn abs(&self) -> BigInt {
        BigInt::from_mag(false, self.mag.clone())
    }
    pub fn add(&self, o: &BigInt) -> BigInt {
        if self.neg == o.neg {
            BigInt::from_mag(self.neg, add_mag(&self.mag, &o.mag))
        } else {
            match cmp_mag(&self.mag, &o.mag) {
                Ordering::Equal => BigInt::zero(),
                Ordering::Greater => BigInt::from_mag(self.neg, sub_mag(&self.mag, &o.mag)),
                Ordering::Less => BigInt::from_mag(o.neg, sub_mag(&o.mag, &self.mag)),
            }
        }
    }
    pub fn sub(&self, o: &BigInt) -> BigInt {
        self.add(&o.neg())
    }
    pub fn mul(&self, o: &BigInt) -> BigInt {
        BigInt::from_mag(self.neg != o.neg, mul_mag(&self.mag, &o.mag))
    }
    /// Truncated division (Go semantics): quotient rounds toward zero,
    /// remainder has the sign of the dividend. Divisor must be non-zero.
    pub fn divrem_trunc(&self, o: &BigInt) -> (BigInt, BigInt) {
        let (q, r) = divrem_mag(&self.mag, &o.mag);
        (BigInt::from_mag(self.neg != o.neg, q), BigInt::from_mag(self.neg, r))
    }
    pub fn shl(&self, n: u64) -> BigInt {
        BigInt::from_mag(self.neg, shl_mag(&self.mag, n))
    }
    /// Arithmetic shift right (floor division by 2^n), as Go does for
    /// constant shifts of negative values.
    pub fn shr(&self, n: u64) -> BigInt {
        if !self.neg {
            return BigInt::from_mag(false, shr_mag(&self.mag, n));
        }
        // floor(-m / 2^n) = -ceil(m / 2^n) = -((m + 2^n - 1) >> n)
        let add = BigInt::from_mag(false, sub_mag(&shl_mag(&[1], n), &[1]));
        let t = add_mag(&self.mag, &add.mag);
        BigInt::from_mag(true, shr_mag(&t, n))
    }
    pub fn cmp(&self, o: &BigInt) -> Ordering {
        match (self.sign(), o.sign()) {
            (a, b) if a != b => a.cmp(&b),
            (0, _) => Ordering::Equal,
            (1, _) => cmp_mag(&self.mag, &o.mag),
            _ => cmp_mag(&o.mag, &self.mag),
        }
    }
    pub fn to_i128(&self) -> Option<i128> {
        if self.mag.len() > 4 {
            return None;
        }
        let mut v: u128 = 0;
        for (i, &l) in self.mag.iter().enumerate() {
            v |= (l as u128) << (32 * i);
        }
        if self.neg {
            if v > (1u128 << 127) {
                None
            } else if v == (1u128 << 127) {
                Some(i128::MIN)
            } else {
                Some(-(v as i128))
            }
        } else if v > i128::MAX as u128 {
            None
        } else {
            Some(v as i128)
        }
    }
    pub fn to_i64(&self) -> Option<i64> {
        let v = self.to_i128()?;
        if v >= i64::MIN as i128 && v <= i64::MAX as i128 {
            Some(v as i64)
        } else {
            None
        }
    }
    pub fn to_u64(&self) -> Option<u64> {
        let v = self.to_i128()?;
        if v >= 0 && v <= u64::MAX as i128 {
            Some(v as u64)
        } else {
            None
        }
    }
    pub fn to_decimal(&self) -> String {
        if self.mag.is_empty() {
            return "0".to_string();
        }
        let mut chunks: Vec<u32> = Vec::new();
        let mut cur = self.mag.clone();
        while !cur.is_empty() {
            let (q, r) = divrem_small(&cur, 1_000_000_000);
            chunks.push(r);
            cur = q;
        }
        let mut s = String::new();
        if self.neg {
            s.push('-');
        }
        let mut first = true;
        for c in chunks.iter().rev() {
            if first {
                s.push_str(&format!("{}", c));
                first = false;
            } else {
                s.push_str(&format!("{:09}", c));
            }
        }
        s
    }
    pub fn pow10(n: u32) -> BigInt {
        let mut r = BigInt::one();
        let ten9 = BigInt::from_u64(1_000_000_000);
        let mut left = n;
        while left >= 9 {
            r = r.mul(&ten9);
            left -= 9;
        }
        if left > 0 {
            r = r.mul(&BigInt::from_u64(10u64.pow(left)));
        }
        r
    }
    pub fn gcd(a: &BigInt, b: &BigInt) -> BigInt {
        let mut x = a.abs();
        let mut y = b.abs();
        while !y.is_zero() {
            let (_, r) = x.divrem_trunc(&y);
            x = y;
            y = r;
        }
        x
    }
    /// low 64 bits of the two's complement representation (infinite sign extension)
    pub fn low_u64_twos(&self) -> u64 {
        let mut v: u64 = 0;
        for (i, &l) in self.mag.iter().take(2).enumerate() {
            v |= (l as u64) << (32 * i);
        }
        if self.neg {
            v.wrapping_neg()
        } else {
            v
        }
    }
}

/// Exact rational number; den > 0; always normalised (gcd(num, den) == 1).
#[derive(Clone, Debug, PartialEq, Eq)]
pub struct Rat {
    pub num: BigInt,
    pub den: BigInt,
}

impl Rat {
    pub fn from_int(i: BigInt) -> Rat {
        Rat { num: i, den: BigInt::one() }
    }
    pub fn new(num: BigInt, den: BigInt) -> Rat {
        assert!(!den.is_zero());
        let (num, den) = if den.is_neg() { (num.neg(), den.neg()) } else { (num, den) };
        if num.is_zero() {
            return Rat { num, den: BigInt::one() };
        }
        let g = BigInt::gcd(&num, &den);
        if g.cmp(&BigInt::one()) == Ordering::Equal {
            Rat { num, den }
        } else {
            Rat { num: num.divrem_trunc(&g).0, den: den.divrem_trunc(&g).0 }
        }
    }
    pub fn is_zero(&self) -> bool {
        self.num.is_zero()
    }
    pub fn sign(&self) -> i32 {
        self.num.sign()
    }
    pub fn is_int(&self) -> bool {
        self.den.cmp(&BigInt::one()) == Ordering::Equal
    }
    pub fn bits(&self) -> u64 {
        self.num.bit_len().max(self.den.bit_len())
    }
    pub fn neg(&self) -> Rat {
        Rat { num: self.num.neg(), den: self.den.clone() }
    }
    pub fn add(&self, o: &Rat) -> Rat {
        Rat::new(self.num.mul(&o.den).add(&o.num.mul(&self.den)), self.den.mul(&o.den))
    }
    pub fn sub(&self, o: &Rat) -> Rat {
        self.add(&o.neg())
    }
    pub fn mul(&self, o: &Rat) -> Rat {
        Rat::new(self.num.mul(&o.num), self.den.mul(&o.den))
    }
    /// o must be non-zero
    pub fn div(&self, o: &Rat) -> Rat {
        Rat::new(self.num.mul(&o.den), self.den.mul(&o.num))
    }
    pub fn cmp(&self, o: &Rat) -> Ordering {
        self.num.mul(&o.den).cmp(&o.num.mul(&self.den))
    }
    /// Truncate toward zero.
    pub fn trunc(&self) -> BigInt {
        self.num.divrem_trunc(&self.den).0
    }
    /// Exact value of a finite f64.
    pub fn from_f64(f: f64) -> Option<Rat> {
        if !f.is_finite() {
            return None;
        }
        if f == 0.0 {
            return Some(Rat::from_int(BigInt::zero()));
        }
        let bits = f.to_bits();
        let neg = bits >> 63 != 0;
        let exp = ((bits >> 52) & 0x7ff) as i64;
        let frac = bits & ((1u64 << 52) - 1);
        let (mant, e) = if exp == 0 { (frac, -1074i64) } else { (frac | (1u64 << 52), exp - 1075) };
        let mut m = BigInt::from_u64(mant);
        if neg {
            m = m.neg();
        }
        Some(if e >= 0 {
            Rat::from_int(m.shl(e as u64))
        } else {
            Rat::new(m, BigInt::one().shl((-e) as u64))
        })
    }
    /// Correctly rounded (nearest, ties to even) conversion to a binary
    /// floating point format with `mant_bits` significant bits (53 / 24),
    /// minimum normal exponent `emin` (-1022 / -126) and maximum exponent
    /// `emax` (1023 / 127). The result is returned as an f64 (every f32 is
    /// exactly representable as f64). Overflow yields +-infinity.
    pub fn to_float(&self, mant_bits: i64, emin: i64, emax: i64) -> f64 {
        if self.num.is_zero() {
            return 0.0;
        }
        let neg = self.num.is_neg();
        let num = self.num.abs();
        let den = &self.den;
        let nb = num.bit_len() as i64;
        let db = den.bit_len() as i64;
        // value in [2^(nb-db-1), 2^(nb-db+1))
        let want = mant_bits + 3; // quotient bits we want at least
        let s = want - (nb - db) + 1;
        let (q, r) = if s >= 0 {
            num.shl(s as u64).divrem_trunc(den)
        } else {
            num.divrem_trunc(&den.shl((-s) as u64))
        };
        let sticky = !r.is_zero();
        let l = q.bit_len() as i64; // >= want
        let qv = q.to_u64().expect("quotient fits in u64");
        let mut e = l - 1 - s; // exponent of leading bit
        if e > emax {
            return if neg { f64::NEG_INFINITY } else { f64::INFINITY };
        }
        let keep = if e >= emin { mant_bits } else { mant_bits - (emin - e) };
        if keep < 0 {
            return if neg { -0.0 } else { 0.0 };
        }
        let drop = l - keep; // >= 1
        debug_assert!(drop >= 1);
        let mut rounded: u64 = if drop >= 64 { 0 } else { qv >> drop };
        let half = (qv >> (drop - 1)) & 1 == 1;
        let rest = (qv & ((1u64 << (drop - 1)) - 1)) != 0 || sticky;
        if half && (rest || rounded & 1 == 1) {
            rounded += 1;
        }
        // value = rounded * 2^(drop - s)
        let unit_exp = drop - s;
        if rounded == 0 {
            return if neg { -0.0 } else { 0.0 };
        }
        if e >= emin && rounded == (1u64 << mant_bits) {
            e += 1;
            if e > emax {
                return if neg { f64::NEG_INFINITY } else { f64::INFINITY };
            }
        }
        let _ = e;
        // rounded has at most mant_bits+1 <= 54 bits and is exactly
        // representable; scale by an exact power of two (done in two steps to
        // stay within the exponent range of f64 for subnormal f64 results).
        let mut val = rounded as f64;
        let mut k = unit_exp;
        while k != 0 {
            let step = k.clamp(-1000, 1000);
            val *= f64::from_bits(((step + 1023) as u64) << 52);
            k -= step;
        }
        if neg {
            -val
        } else {
            val
        }
    }
    pub fn to_f64(&self) -> f64 {
        self.to_float(53, -1022, 1023)
    }
    /// f32 value returned widened to f64
    pub fn to_f32(&self) -> f64 {
        self.to_float(24, -126, 127)
    }
}

#[cfg(test)]
mod tests {
    use super::*;

    fn bi(s: &str) -> BigInt {
        if let Some(r) = s.strip_prefix('-') {
            BigInt::parse_radix(r, 10).unwrap().neg()
        } else {
            BigInt::parse_radix(s, 10).unwrap()
        }
    }

    #[test]
    fn arith() {
        let a = bi("123456789012345678901234567890");
        let b = bi("987654321098765432109876543210");
        assert_eq!(a.add(&b).to_decimal(), "1111111110111111111011111111100");
        assert_eq!(a.sub(&b).to_decimal(), "-864197532086419753208641975320");
        assert_eq!(a.mul(&b).to_decimal(), "121932631137021795226185032733622923332237463801111263526900");
        let (q, r) = b.divrem_trunc(&a);
        assert_eq!(q.to_decimal(), "8");
        assert_eq!(r.to_decimal(), "9000000000900000000090");
        let (q, r) = bi("-7").divrem_trunc(&bi("2"));
        assert_eq!((q.to_decimal(), r.to_decimal()), ("-3".to_string(), "-1".to_string()));
        assert_eq!(bi("-5").shr(1).to_decimal(), "-3");
        assert_eq!(bi("1").shl(100).to_decimal(), "1267650600228229401496703205376");
    }

    #[test]
    fn division_random() {
        // cross-check long division against multiplication
        let mut x: u64 = 0x9e3779b97f4a7c15;
        let mut next = || {
            x ^= x << 13;
            x ^= x >> 7;
            x ^= x << 17;
            x
        };
        for _ in 0..2000 {
            let la = (next() % 6 + 1) as usize;
            let lb = (next() % 4 + 1) as usize;
            let mut am: Vec<u32> = (0..la).map(|_| next() as u32).collect();
            let mut bm: Vec<u32> = (0..lb).map(|_| if next() % 5 == 0 { u32::MAX } else { next() as u32 }).collect();
            trim(&mut am);
            trim(&mut bm);
            if bm.is_empty() {
                continue;
            }
            let a = BigInt::from_mag(false, am);
            let b = BigInt::from_mag(false, bm);
            let (q, r) = a.divrem_trunc(&b);
            assert!(r.cmp(&b) == Ordering::Less);
            assert_eq!(q.mul(&b).add(&r), a);
        }
    }

    #[test]
    fn rat_to_float() {
        let tenth = Rat::new(bi("1"), bi("10"));
        assert_eq!(tenth.to_f64(), 0.1);
        assert_eq!(tenth.to_f32(), 0.1f32 as f64);
        let s = tenth.add(&Rat::new(bi("2"), bi("10")));
        assert_eq!(s.to_f64(), 0.3);
        // subnormals and limits
        let tiny = Rat::new(bi("1"), BigInt::one().shl(1074));
        assert_eq!(tiny.to_f64(), f64::from_bits(1));
        let tiny_half = Rat::new(bi("1"), BigInt::one().shl(1075));
        assert_eq!(tiny_half.to_f64(), 0.0);
        let tiny_3q = Rat::new(bi("3"), BigInt::one().shl(1076));
        assert_eq!(tiny_3q.to_f64(), f64::from_bits(1));
        let big = Rat::from_int(BigInt::pow10(308));
        assert_eq!(big.to_f64(), 1e308);
        assert!(Rat::from_int(BigInt::pow10(309)).to_f64().is_infinite());
        assert_eq!(Rat::from_int(bi("16777217")).to_f32(), 16777216.0);
        assert_eq!(Rat::from_int(bi("16777219")).to_f32(), 16777220.0);
        for f in [1.5f64, -2.75, 1e-310, 123456.789e100, f64::MAX, f64::MIN_POSITIVE] {
            assert_eq!(Rat::from_f64(f).unwrap().to_f64(), f);
        }
        assert_eq!(Rat::from_f64(3.4028235e38).unwrap().to_f32(), f32::MAX as f64);
    }
}
