//! C01: emitted Go behaves exactly as the source program denotes.
//! Oracles: recorded real-Go outputs for the corpus (ground truth), refsem for generated programs,
//! the project model's reference semantics for generated multi-package projects.
use crate::capi;
use crate::diff::{self, DiffOpts, Outcome};
use crate::gl::ast::{PrintOpts, print_program};
use crate::gl::pgen::{Features, generate};
use crate::goexec::{self, Term, Vet};
use crate::projgen::{self, Project};
use crate::runner::{self, Case, Ctx, PropSpec};
use crate::util::{self, Rng, hash_str};
use serde_json::json;

pub static SPEC: PropSpec = PropSpec {
    id: "C01",
    level: "exploration",
    rule: "programs: 74 corpus programs + 8 corpus projects compiled now and executed (expected = stdout recorded from real Go), type-directed generated single-package programs over the clean feature lattice (expected = refsem), their max-parenthesised twins, and generated multi-package projects (expected = the project model); a program is non-trivial when it was accepted, executed and printed >= 5 lines; distinct by source hash",
    eval_counter: "programs",
    assumptions: &[
        "gomini executes the emitted Go text faithfully for the emitted subset (calibrated on 69 recorded real-Go runs + 8 projects; anything outside its subset is inconclusive)",
        "refsem is the statement of source meaning (call-by-value, left-to-right, first-match, lexical closures, shared Refs, wrap-around integers); generated programs stay inside the clean lattice (recorded findings are excluded by construction and pinned by witnesses)",
        "Vec values are used linearly in generated programs, so results do not depend on slice capacity; slice-fork events are counted",
    ],
    crash_is_violation: false,
    stack_mib: 256,
    case_cpu_s: 60,
    shards: 0,
    run,
    floors: &[("executed", 300, 20_000), ("corpus_outputs_matched", 60, 60), ("projects_executed", 8, 200), ("failed_as_expected", 0, 20), ("builtin_named_function_programs_ok", 32, 32)],
    finish: None,
};

/// compile a project on disk, run the Go, compare with expected stdout
pub fn check_project_dir(case: &mut Case, label: &str, root: &std::path::Path, expected: &str) {
    let main = root.join("main.gom");
    let Ok(src) = std::fs::read_to_string(&main) else {
        case.inconclusive("cannot read main.gom");
        return;
    };
    case.count("programs", 1);
    let r = runner::guard(|| compiler::pipeline::pipeline::compile(&main, &src).map(|c| capi::go_text(&c)));
    let go = match r {
        Ok(Ok(go)) => go,
        Ok(Err(e)) => {
            case.count("project_rejected", 1);
            case.violation(
                "C01:project-rejected".to_string(),
                format!("a well-formed project is rejected: {}", util::truncate(&capi::err_messages(&e).join("; "), 200)),
                json!({"label": label, "messages": capi::err_messages(&e)}),
            );
            return;
        }
        Err(p) => {
            case.inconclusive(format!("compiler panic at {} (a C04 event)", p.site));
            return;
        }
    };
    let gp = goexec::parse(&go);
    match goexec::vet(&gp) {
        Vet::Accept => {}
        Vet::Unsupported(u) => {
            case.inconclusive(format!("gomini vet unsupported: {}", u));
            return;
        }
        Vet::Reject(e) => {
            case.inconclusive(format!("emitted Go is invalid ({}): C02's business", e[0].0));
            return;
        }
    }
    let run = goexec::run(&gp, 50_000_000, gomini::Sched::Deterministic);
    match &run.term {
        Term::Ok => {
            case.count("projects_executed", 1);
            case.count("executed", 1);
            if run.stdout != expected {
                case.violation(
                    "C01:stdout-differs".to_string(),
                    format!("project output differs from the expected output (first difference at byte {})", diff::first_diff(expected, &run.stdout)),
                    json!({"label": label, "expected_stdout": expected, "got_stdout": util::truncate(&run.stdout, 4000), "go": util::truncate(&go, 30000)}),
                );
            } else if expected.lines().count() >= 5 {
                case.nontrivial(hash_str(&go));
            }
        }
        Term::Unsupported(u) => case.inconclusive(format!("gomini run unsupported: {}", u)),
        Term::Budget => case.inconclusive("gomini budget"),
        Term::Fail(k) => {
            case.violation(format!("C01:unexpected-failure:{}", k), format!("project fails at run time with {}", k), json!({"label": label, "stderr": run.stderr, "stdout": run.stdout}));
        }
    }
}

fn normalise_bad_float_verb(s: &str) -> String {
    let mut out = String::new();
    let mut rest = s;
    loop {
        let Some(i) = rest.find("%!d(float") else {
            out.push_str(rest);
            return out;
        };
        out.push_str(&rest[..i]);
        let tail = &rest[i..];
        let (Some(eq), Some(close)) = (tail.find('='), tail.find(')')) else {
            out.push_str(tail);
            return out;
        };
        if eq < close {
            out.push_str(&tail[eq + 1..close]);
            rest = &tail[close + 1..];
        } else {
            out.push_str(&tail[..1]);
            rest = &tail[1..];
        }
    }
}

fn run(ctx: &mut Ctx) {
    let tier = ctx.tier;
    let seed = ctx.seed;
    let scratch = capi::scratch_dir().clone();
    if let Some(rep) = ctx.replay_input.clone() {
        let src = rep["record"]["detail"]["source"].as_str().unwrap_or("").to_string();
        println!("replay: source stored in the replay file; compile it with `compiler run --dump-go` to inspect ({} bytes)", src.len());
        return;
    }
    // 1. corpus with recorded real-Go output
    for (i, d) in crate::goldens::pipeline_dirs().into_iter().enumerate() {
        if !ctx.mine(i as u64) {
            continue;
        }
        let name = d.file_name().unwrap().to_string_lossy().to_string();
        let Ok(expected) = std::fs::read_to_string(d.join("main.gom.out")) else { continue };
        // outputs recorded before `fix: float32_to_string / float64_to_string print the number` contain Go's
        // bad-verb rendering `%!d(float32=3.5)`; the value inside is what %v prints
        let expected = normalise_bad_float_verb(&expected);
        let src = std::fs::read_to_string(d.join("main.gom")).unwrap_or_default();
        ctx.case(&format!("corpus/{}", name), |c| {
            c.count("programs", 1);
            if expected.starts_with("# command-line-arguments") {
                c.count("corpus_recorded_go_compile_error", 1);
                return;
            }
            let recorded_panic = expected.contains("\ngoroutine 1 [running]:");
            match runner::guard(|| compiler::pipeline::pipeline::compile(&d.join("main.gom"), &src).map(|c| capi::go_text(&c))) {
                Ok(Ok(go)) => {
                    let gp = goexec::parse(&go);
                    let run = goexec::run(&gp, 50_000_000, gomini::Sched::Deterministic);
                    match &run.term {
                        Term::Ok if !recorded_panic => {
                            c.count("executed", 1);
                            if run.stdout == expected {
                                c.count("corpus_outputs_matched", 1);
                                if expected.lines().count() >= 5 {
                                    c.nontrivial(hash_str(&src));
                                }
                            } else {
                                c.violation(
                                    "C01:stdout-differs".to_string(),
                                    format!("corpus program {} no longer prints what real Go recorded (first difference at byte {})", name, diff::first_diff(&expected, &run.stdout)),
                                    json!({"label": name, "source": src, "expected_stdout": expected, "got_stdout": util::truncate(&run.stdout, 4000)}),
                                );
                            }
                        }
                        Term::Fail(k) if recorded_panic => {
                            c.count("executed", 1);
                            // recorded: stderr of the failing run; compare the part before the stack trace
                            let head_exp: String = expected.split("\ngoroutine").next().unwrap_or("").to_string();
                            let head_got: String = run.stderr.split("\ngoroutine").next().unwrap_or("").to_string();
                            if head_exp.trim_end() == head_got.trim_end() {
                                c.count("corpus_outputs_matched", 1);
                                c.count("failed_as_expected", 1);
                            } else {
                                c.violation("C01:failure-differs".to_string(), format!("corpus program {} fails differently ({})", name, k), json!({"label": name, "expected": expected, "got_stderr": run.stderr}));
                            }
                        }
                        Term::Unsupported(u) => {
                            c.count("corpus_unsupported", 1);
                            let _ = u;
                        }
                        other => {
                            c.violation(
                                format!("C01:termination-differs:{:?}", other).chars().take(60).collect::<String>(),
                                format!("corpus program {} terminates differently from the recorded run: {:?}", name, other),
                                json!({"label": name, "source": src, "expected": expected, "got_stdout": run.stdout, "stderr": run.stderr}),
                            );
                        }
                    }
                }
                Ok(Err(e)) => {
                    c.violation("C01:corpus-rejected".to_string(), format!("corpus program {} is rejected: {:?}", name, capi::err_messages(&e)), json!({"label": name}));
                }
                Err(p) => c.inconclusive(format!("compiler panic at {} (a C04 event)", p.site)),
            }
            c.sample(json!({"workload":"corpus","program":name,"expected_lines":expected.lines().count()}));
        });
    }
    // 2. corpus projects
    for (i, (name, _files)) in crate::props::c13::corpus_projects().into_iter().enumerate() {
        if !ctx.mine(i as u64 + 5) {
            continue;
        }
        let root = util::repo_root().join("crates/compiler/src/tests/package").join(&name);
        let expected = std::fs::read_to_string(root.join("main.gom.out")).unwrap_or_default();
        ctx.case(&format!("corpus_project/{}", name), |c| {
            check_project_dir(c, &format!("corpus_project/{}", name), &root, &expected);
            c.sample(json!({"workload":"corpus_project","project":name}));
        });
    }
    // 3. generated programs + metamorphic twins
    let n = tier.pickn(700u64, 60_000u64) / ctx.nshards as u64 + 1;
    let opts = DiffOpts { prop: "C01", vet_is_violation: false, budget: 400_000, print: PrintOpts::default() };
    let opts_paren = DiffOpts { prop: "C01", vet_is_violation: false, budget: 400_000, print: PrintOpts { max_parens: true } };
    for i in 0..n {
        let mut rng = Rng::keyed(seed, "c01-gen", ctx.shard as u64, i);
        let mut f = Features::base();
        f.n_fns = 3 + rng.below(5);
        f.failures = rng.chance(1, 10);
        f.ident_mode = if rng.chance(1, 4) { 1 } else { 0 };
        let (prog, mut tags) = generate(&mut rng, f);
        // every fourth program: functions, locals, fields, methods .. renamed onto Go keywords goml does not reserve and
        // onto Go's predeclared names (append, len, panic, string, ..): the meaning must not change
        let prog = if i % 4 == 3 {
            tags.insert("keyword_renamed");
            crate::props::c19::keyword_renaming(&prog, &mut rng).program(&prog)
        } else {
            prog
        };
        let label = format!("gen/{}/{}", ctx.shard, i);
        let twin = rng.chance(1, 5);
        ctx.case(&label.clone(), |c| {
            let o = diff::run_diff(c, &prog, &label, if twin { &opts_paren } else { &opts });
            for t in &tags {
                c.count(&format!("tag:{}", t), 1);
            }
            if twin {
                c.count("max_paren_twins", 1);
            }
            match o {
                Outcome::Agree { stdout_len, .. } => {
                    if stdout_len > 0 {
                        let src = print_program(&prog, PrintOpts::default());
                        if src.matches("string_println").count() >= 5 {
                            c.nontrivial(hash_str(&src));
                        }
                    }
                }
                Outcome::Inconclusive(r) => c.inconclusive(diff::msg_class(&r)),
                _ => {}
            }
            if i < 1 {
                c.sample(json!({"workload":"generated","source": util::truncate(&print_program(&prog, PrintOpts::default()), 1200)}));
            }
        });
    }
    // 3b. failing operations whose result is discarded (the failure is part of the program's behaviour)
    for (k2, (label, src, class)) in crate::props::c09::discarded_failure_sources().into_iter().enumerate() {
        if !ctx.mine(700_000 + k2 as u64) {
            continue;
        }
        ctx.case(&label.clone(), |c| {
            crate::props::c09::check_discarded_failure(c, "C01", &label, &src, class);
            c.count("executions", 1);
        });
    }
    // 3c. a generic type with a generic and an instance-specific inherent impl block
    if ctx.mine(799_999) {
        ctx.case("inherent-overlap", |c| {
            crate::props::c17::check_inherent_overlap(c, "C01", true);
            c.count("executions", 1);
        });
    }
    // 3d. calls whose callee is itself computed (a call that returns a function, an element of an array of functions, a
    // field holding a function, an if-expression) next to effectful arguments: callee first, then the arguments left to
    // right (added after a seeded change that named the callee after its arguments in ANF; C09 has the operand-position
    // product, this is the plain behavioural twin in C01's own workload)
    if ctx.mine(799_998) {
        let src = "struct Hd { f: (int32) -> int32 }\nfn inc(x: int32) -> int32 { x + 1 }\nfn dbl(x: int32) -> int32 { x * 2 }\nfn pickf(r: Ref[int32], b: bool) -> (int32) -> int32 {\n    let _ = string_println(\"callee\");\n    let _ = ref_set(r, ref_get(r) * 2);\n    if b { inc } else { dbl }\n}\nfn nexti(r: Ref[int32]) -> int32 {\n    let _ = string_println(\"index\");\n    let _ = ref_set(r, ref_get(r) * 3);\n    1\n}\nfn operand(r: Ref[int32]) -> int32 {\n    let _ = string_println(\"argument\");\n    let _ = ref_set(r, ref_get(r) + 5);\n    ref_get(r)\n}\nfn holder(r: Ref[int32]) -> Hd {\n    let _ = string_println(\"holder\");\n    let _ = ref_set(r, ref_get(r) * 2);\n    Hd { f: dbl }\n}\nfn main() -> unit {\n    let r = ref(1);\n    let v = pickf(r, true)(operand(r));\n    let _ = string_println(int32_to_string(v) + \" \" + int32_to_string(ref_get(r)));\n    let fs: [(int32) -> int32; 2] = [inc, dbl];\n    let w = array_get(fs, nexti(r))(operand(r));\n    let _ = string_println(int32_to_string(w) + \" \" + int32_to_string(ref_get(r)));\n    let u = (if ref_get(r) > 0 { pickf(r, false) } else { inc })(operand(r));\n    let _ = string_println(int32_to_string(u) + \" \" + int32_to_string(ref_get(r)));\n    let h = holder(r).f;\n    let t = h(operand(r));\n    let _ = string_println(int32_to_string(t) + \" \" + int32_to_string(ref_get(r)));\n    ()\n}\n";
        // r: 1 -> callee 2 -> argument 7: inc(7) = 8 | index 21 -> argument 26: dbl(26) = 52 | callee 52 -> argument 57: dbl(57) = 114
        // | holder 114 -> argument 119: dbl(119) = 238
        let expected = "callee\nargument\n8 7\nindex\nargument\n52 26\ncallee\nargument\n114 57\nholder\nargument\n238 119\n";
        ctx.case("computed-callee-order", |c| {
            if let Some((out, term, stderr)) = crate::exec::run_source(c, "C01", "computed-callee-order", src, 1_000_000) {
                if out == expected && matches!(term, crate::goexec::Term::Ok) {
                    c.count("computed_callee_programs_ok", 1);
                    c.count("executions", 1);
                } else {
                    c.violation("C01:stdout-differs:computed-callee".to_string(), format!("a program with computed callees prints {:?} ({:?} {}), expected {:?}", out, term, util::truncate(&stderr, 80), expected), json!({"source": src, "expected": expected, "got": out}));
                }
            }
        });
    }
    // 3e. a variable divided by the LITERAL zero (integer types): the program prints up to the division and fails there;
    // the Go text must not hand the Go compiler a constant zero divisor, which it rejects (added after a seeded change
    // that hoisted the zero only when the dividend was a literal too)
    if ctx.mine(799_997) {
        for (ty, lit, zero) in [("int32", "7", "0"), ("int8", "7i8", "0i8"), ("uint8", "7u8", "0u8"), ("int64", "7i64", "0i64"), ("uint64", "7u64", "0u64"), ("uint16", "7u16", "0u16")] {
            let src = format!("fn half(n: {ty}) -> {ty} {{\n    let _ = string_println(\"dividing\");\n    n / {zero}\n}}\nfn main() -> unit {{\n    let _ = string_println(\"start\");\n    let n: {ty} = {lit};\n    let q = half(n);\n    let _ = string_println({ty}_to_string(q));\n    ()\n}}\n", ty = ty, lit = lit, zero = zero);
            let label = format!("literal-zero-divisor/{}", ty);
            ctx.case(&label.clone(), |c| {
                if let Some((out, term, stderr)) = crate::exec::run_source(c, "C01", &label, &src, 1_000_000) {
                    if out == "start\ndividing\n" && matches!(term, crate::goexec::Term::Fail(_)) {
                        c.count("literal_zero_divisor_programs_ok", 1);
                        c.count("executions", 1);
                    } else {
                        c.violation("C01:failure-point-differs:literal-zero-divisor".to_string(), format!("`n / {}` at {}: prints {:?} and ends {:?} ({}), expected the two lines and a run-time failure", zero, ty, out, term, util::truncate(&stderr, 80)), json!({"source": src}));
                    }
                }
            });
        }
    }
    // 3b. user functions named like Go's predeclared functions and types, with effects, results discarded in three
    // ways, and (for the Vec-shaped ones) next to the builtin vec operations that are emitted under those Go names
    {
        let names = ["append", "len", "cap", "panic", "print", "println", "new", "make", "copy", "delete", "min", "max", "clear", "close", "complex", "real", "imag", "recover", "int", "uint", "uintptr", "byte", "rune", "error", "any", "nil", "iota", "comparable"];
        for (i, name) in names.iter().enumerate() {
            if !ctx.mine(60_000 + i as u64) {
                continue;
            }
            let src = format!(
                "fn {n}(r: Ref[int32], k: int32) -> int32 {{\n    let _ = string_println(\"in \" + int32_to_string(k));\n    let _ = ref_set(r, ref_get(r) + k);\n    k\n}}\nfn grow(xs: Vec[int32], x: int32) -> Vec[int32] {{ vec_push(xs, x) }}\nfn main() -> unit {{\n    let r = ref(0);\n    let _ = {n}(r, 5);\n    {n}(r, 7);\n    let unused = {n}(r, 1);\n    let v: Vec[int32] = grow(grow(vec_new(), 3), 4);\n    let _ = string_println(int32_to_string(ref_get(r)) + \" \" + int32_to_string(vec_len(v)) + \" \" + int32_to_string(vec_get(v, 1)));\n    ()\n}}\n",
                n = name
            );
            let label = format!("builtin-named-function/{}", name);
            ctx.case(&label.clone(), |c| {
                if let Some((out, term, stderr)) = crate::exec::run_source(c, "C01", &label, &src, 1_000_000) {
                    let expected = "in 5\nin 7\nin 1\n13 2 4\n";
                    if out == expected && matches!(term, Term::Ok) {
                        c.count("builtin_named_function_programs_ok", 1);
                        c.nontrivial(hash_str(&src));
                    } else {
                        c.violation(format!("C01:builtin-named-function:{}", name), format!("{} prints {:?} ({:?} {}), expected {:?}", label, out, term, util::truncate(&stderr, 80), expected), json!({"label": label, "source": src, "stdout": out}));
                    }
                }
            });
        }
        // Vec-shaped functions named like the Go builtins the vec operations are emitted as
        for (i, name) in ["append", "len", "cap", "copy"].iter().enumerate() {
            if !ctx.mine(61_000 + i as u64) {
                continue;
            }
            let src = format!(
                "fn {n}(xs: Vec[int32], x: int32) -> Vec[int32] {{\n    let _ = string_println(\"user \" + int32_to_string(x));\n    if x > 100 {{ xs }} else {{ vec_push(xs, x + 1000) }}\n}}\nfn main() -> unit {{\n    let v0: Vec[int32] = vec_new();\n    let v1 = vec_push(v0, 1);\n    let v2 = {n}(v1, 2);\n    let v3 = vec_push(v2, 3);\n    let _ = string_println(int32_to_string(vec_len(v3)) + \" \" + int32_to_string(vec_get(v3, 0)) + \" \" + int32_to_string(vec_get(v3, 1)) + \" \" + int32_to_string(vec_get(v3, 2)));\n    ()\n}}\n",
                n = name
            );
            let label = format!("builtin-named-vec-function/{}", name);
            ctx.case(&label.clone(), |c| {
                if let Some((out, term, stderr)) = crate::exec::run_source(c, "C01", &label, &src, 1_000_000) {
                    let expected = "user 2\n3 1 1002 3\n";
                    if out == expected && matches!(term, Term::Ok) {
                        c.count("builtin_named_function_programs_ok", 1);
                        c.nontrivial(hash_str(&src));
                    } else {
                        c.violation(format!("C01:builtin-named-function:vec:{}", name), format!("{} prints {:?} ({:?} {}), expected {:?}", label, out, term, util::truncate(&stderr, 80), expected), json!({"label": label, "source": src, "stdout": out}));
                    }
                }
            });
        }
    }
    // 4. generated multi-package projects
    let np = tier.pickn(48u64, 2_000u64) / ctx.nshards as u64 + 1;
    for i in 0..np {
        let mut rng = Rng::keyed(seed, "c01-proj", ctx.shard as u64, i);
        let proj = Project::generate(&mut rng, 5);
        let files = proj.render();
        let root = scratch.join(format!("c01p-{}-{}", ctx.shard, i));
        let _ = std::fs::remove_dir_all(&root);
        let order: Vec<usize> = (0..files.len()).collect();
        let label = format!("project/{}/{}", ctx.shard, i);
        ctx.case(&label.clone(), |c| {
            if projgen::materialize(&root, &files, &order).is_err() {
                c.inconclusive("cannot materialise project");
                return;
            }
            check_project_dir(c, &label, &root, &proj.expected_stdout());
            if i < 1 {
                c.sample(json!({"workload":"generated_project","packages": proj.libs.iter().map(|l| l.name.clone()).collect::<Vec<_>>(), "expected": util::truncate(&proj.expected_stdout(), 300)}));
            }
        });
        let _ = std::fs::remove_dir_all(&root);
    }
    capi::cleanup_scratch();
}
