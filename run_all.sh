#!/bin/bash
# usage: run_all.sh <tier> <seed>...   -- runs every registered check at the given seeds, prints one line per run
TIER="$1"; shift
cd /verif
for SEED in "$@"; do
  for P in C01 C02 C03 C04 C05 C06 C07 C08 C09 C10 C11 C12 C13 C14 C15 C16 C17 C18 C19 C20; do
    S=$(date +%s)
    VERIF_SEED=$SEED ./check $P $TIER > out/all_${P}_${TIER}_${SEED}.log 2>&1
    RC=$?
    E=$(date +%s)
    echo "$P $TIER seed=$SEED exit=$RC $((E-S))s known=$(grep -c '^KNOWN-FINDING' out/all_${P}_${TIER}_${SEED}.log) $(grep -E '^VIOLATION|^INCONCLUSIVE' out/all_${P}_${TIER}_${SEED}.log | head -2 | tr '\n' ' ')"
  done
done
