//! C12: the syntax tree is lossless and positions are exact.
//!
//! Monitor: for every input text, (1) lexer tokens tile the text on char
//! boundaries, (2) CST text == input, (3) two parses give identical trees,
//! (4) every diagnostic / node / token range lies inside the text on char
//! boundaries, (5) every lexer token kind maps to the syntax kind of the same
//! name in the tree. Termination is observed by the runner's CPU watchdog.

use crate::runner::{Case, Ctx, PropSpec};
use crate::util::{self, Rng, hash_str};
use serde_json::json;
use std::path::Path;

pub static SPEC: PropSpec = PropSpec {
    id: "C12",
    level: "exploration",
    rule: "inputs: exhaustive strings up to length L over a 28-symbol alphabet covering every token class (L=3 quick, L=4 thorough, plus L<=6 over 10 lexically interesting symbols in thorough), random token soups, multiline-string torture, mutations and every-boundary prefixes of corpus files, every corpus file with one of 18 special characters (U+FEFF, U+200B, U+2028, NUL, CR, form feed, ...) before its first byte, after its last byte and after its first line; an input is non-trivial when the lexer yields >= 2 tokens; distinct by content hash",
    eval_counter: "inputs",
    assumptions: &[
        "rowan's SyntaxNode::text() is trusted to concatenate the green tree's token texts",
        "termination is bounded progress: 20 CPU-seconds per batch of <= 512 inputs of <= 64 KiB",
    ],
    crash_is_violation: true,
    stack_mib: 8,
    case_cpu_s: 20,
    shards: 0,
    run,
    floors: &[("inputs", 20_000, 600_000), ("distinct_nontrivial", 5_000, 100_000), ("inputs_parser_stuck", 1, 1)],
    finish: None,
};

pub struct Finding {
    pub sig: String,
    pub summary: String,
}

#[derive(Default)]
pub struct Obs {
    pub tokens: u64,
    pub cst_tokens: u64,
    pub cst_nodes: u64,
    pub diagnostics: u64,
    pub stuck: bool,
    pub error_tokens: u64,
}

/// The oracle. Returns findings for one text.
pub fn check_text(s: &str, obs: &mut Obs) -> Vec<Finding> {
    let mut out = Vec::new();
    let len = s.len();
    // (1) lexer tiling
    let toks = lexer::lex(s);
    obs.tokens += toks.len() as u64;
    let mut pos = 0usize;
    for (i, t) in toks.iter().enumerate() {
        let st: usize = t.range.start().into();
        let en: usize = t.range.end().into();
        if t.kind == lexer::TokenKind::Error {
            obs.error_tokens += 1;
        }
        if st != pos {
            out.push(Finding {
                sig: "lex-gap-or-overlap".into(),
                summary: format!("token {} starts at {} but previous ended at {}", i, st, pos),
            });
            break;
        }
        if en < st || en > len {
            out.push(Finding {
                sig: "lex-range-outside".into(),
                summary: format!("token {} range {}..{} outside text of length {}", i, st, en, len),
            });
            break;
        }
        if en == st {
            out.push(Finding {
                sig: "lex-empty-token".into(),
                summary: format!("token {} is empty at {}", i, st),
            });
            break;
        }
        if !s.is_char_boundary(st) || !s.is_char_boundary(en) {
            out.push(Finding {
                sig: "lex-splits-char".into(),
                summary: format!("token {} range {}..{} splits a character", i, st, en),
            });
            break;
        }
        if &s[st..en] != t.text {
            out.push(Finding {
                sig: "lex-text-mismatch".into(),
                summary: format!("token {} text differs from its range", i),
            });
            break;
        }
        pos = en;
    }
    if out.is_empty() && pos != len {
        out.push(Finding {
            sig: "lex-does-not-reach-end".into(),
            summary: format!("tokens end at {} but text has {} bytes", pos, len),
        });
    }
    // (2) CST lossless
    let path = Path::new("main.gom");
    let r1 = parser::parse(path, s);
    let stuck = r1
        .diagnostics()
        .iter()
        .any(|d| d.message().contains("parser did not consume input"));
    obs.stuck |= stuck;
    obs.diagnostics += r1.diagnostics().len() as u64;
    let root: parser::syntax::MySyntaxNode = rowan::SyntaxNode::new_root(r1.green_node.clone());
    let text = root.text().to_string();
    if text != s {
        let common = text.bytes().zip(s.bytes()).take_while(|(a, b)| a == b).count();
        let kind = if stuck {
            "cst-loses-text:parser-stuck"
        } else if s.starts_with(&text) {
            "cst-loses-text:tail-dropped"
        } else {
            "cst-text-differs"
        };
        out.push(Finding {
            sig: kind.into(),
            summary: format!(
                "CST text has {} bytes, input {} bytes, first difference at byte {}",
                text.len(),
                len,
                common
            ),
        });
    }
    // (4) diagnostics ranges
    for d in r1.diagnostics().iter() {
        if let Some(r) = d.range() {
            let st: usize = r.start().into();
            let en: usize = r.end().into();
            if st > en || en > len {
                out.push(Finding {
                    sig: "diag-range-outside".into(),
                    summary: format!("diagnostic '{}' range {}..{} outside text of {} bytes", d.message(), st, en, len),
                });
                break;
            }
            if !s.is_char_boundary(st) || !s.is_char_boundary(en) {
                out.push(Finding {
                    sig: "diag-range-splits-char".into(),
                    summary: format!("diagnostic '{}' range {}..{} splits a character", d.message(), st, en),
                });
                break;
            }
        }
    }
    // node / token ranges + kind names (5)
    let tree_len: usize = root.text_range().end().into();
    let mut lex_iter = toks.iter();
    let mut tpos = 0usize;
    let mut bad_kind = None;
    let mut bad_range = None;
    for ev in root.preorder_with_tokens() {
        if let rowan::WalkEvent::Enter(el) = ev {
            match el {
                rowan::NodeOrToken::Node(n) => {
                    obs.cst_nodes += 1;
                    let r = n.text_range();
                    let (st, en): (usize, usize) = (r.start().into(), r.end().into());
                    if en > tree_len || st > en {
                        bad_range = Some(format!("node {:?} {}..{}", n.kind(), st, en));
                    }
                }
                rowan::NodeOrToken::Token(t) => {
                    obs.cst_tokens += 1;
                    let r = t.text_range();
                    let (st, en): (usize, usize) = (r.start().into(), r.end().into());
                    if st != tpos {
                        bad_range = Some(format!("token {:?} starts at {} expected {}", t.kind(), st, tpos));
                    }
                    tpos = en;
                    if let Some(lt) = lex_iter.next() {
                        let a = format!("{:?}", lt.kind);
                        let b = format!("{:?}", t.kind());
                        if a != b && bad_kind.is_none() {
                            bad_kind = Some((a, b));
                        }
                    }
                }
            }
        }
    }
    if let Some((a, b)) = bad_kind {
        out.push(Finding {
            sig: format!("kind-mismatch:{}->{}", a, b),
            summary: format!("lexer token kind {} appears in the tree as syntax kind {}", a, b),
        });
    }
    if let Some(b) = bad_range {
        out.push(Finding {
            sig: "cst-range-inconsistent".into(),
            summary: b,
        });
    }
    // (3) determinism of the parse
    let r2 = parser::parse(path, s);
    if parser::debug_tree(&r1.green_node) != parser::debug_tree(&r2.green_node) {
        out.push(Finding {
            sig: "parse-nondeterministic-tree".into(),
            summary: "two parses of the same text gave different trees".into(),
        });
    }
    let m1: Vec<String> = r1.diagnostics().iter().map(|d| format!("{:?}{}", d.range(), d.message())).collect();
    let m2: Vec<String> = r2.diagnostics().iter().map(|d| format!("{:?}{}", d.range(), d.message())).collect();
    if m1 != m2 {
        out.push(Finding {
            sig: "parse-nondeterministic-diagnostics".into(),
            summary: "two parses of the same text gave different diagnostics".into(),
        });
    }
    out
}

fn check_batch(case: &mut Case, label: &str, inputs: &[String]) {
    let mut obs = Obs::default();
    let mut stuck_inputs = 0u64;
    case.input = Some(json!({"label": label, "inputs": inputs.iter().take(600).collect::<Vec<_>>()}));
    for s in inputs {
        let mut o = Obs::default();
        let fs = check_text(s, &mut o);
        if o.tokens >= 2 {
            case.nontrivial(hash_str(s));
        }
        if o.stuck {
            stuck_inputs += 1;
        }
        obs.tokens += o.tokens;
        obs.cst_tokens += o.cst_tokens;
        obs.cst_nodes += o.cst_nodes;
        obs.diagnostics += o.diagnostics;
        obs.error_tokens += o.error_tokens;
        for f in fs {
            case.violation(
                f.sig.clone(),
                f.summary.clone(),
                json!({"input": s, "workload": label, "finding": f.summary}),
            );
        }
    }
    if let Some(first) = inputs.iter().find(|s| s.len() >= 3) {
        case.sample(json!({"workload": label, "input": util::truncate(first, 300), "batch_size": inputs.len()}));
    }
    case.count("inputs", inputs.len() as u64);
    case.count(&format!("inputs_{}", label), inputs.len() as u64);
    case.count("lexer_tokens", obs.tokens);
    case.count("cst_tokens", obs.cst_tokens);
    case.count("cst_nodes", obs.cst_nodes);
    case.count("parser_diagnostics", obs.diagnostics);
    case.count("lexer_error_tokens", obs.error_tokens);
    case.count("inputs_parser_stuck", stuck_inputs);
}

pub const ALPHABET: &[&str] = &[
    "a", "_", "1", "8", "i", "f", ".", "\"", "\\", "/", "\n", " ", "\t", "(", ")", "{", "}", ":", "=", "-", ">", "|", "&",
    "!", "#", "\u{e9}", "\u{1F600}", "\u{feff}",
];
/// characters editors and file systems put at the very start / end of a file or between lines
pub const SPECIAL_CHARS: &[&str] = &["\u{feff}", "\u{fffe}", "\u{200b}", "\u{2028}", "\u{2029}", "\u{0}", "\u{1a}", "\r", "\r\n", "\u{c}", "\u{b}", "\u{a0}", "\u{85}", "#!/usr/bin/env goml\n", "\u{1}", "\u{7f}", "\u{e000}", "\u{10ffff}"];
/// pieces of multi-line string syntax (marker lines, continuation lines, lone backslashes, line ends)
pub const ML_PARTS: &[&str] = &[
    "\\\\", "\\\\ a", "\\\\\n", " \\\\ b\n", "\t\\\\c", "\n", "\r\n", "\r", "\"", "\\", " ", "x", "let s = ", ";",
    "\\\\ \"q\" \\ \n", "  ", "\\\\\\", "//\n", "\u{e9}", "fn main() {", "}",
];
pub const SMALL_ALPHABET: &[&str] = &["1", "i", "8", ".", "f", "\"", "\\", "\n", "/", "a"];

pub const TOKEN_POOL: &[&str] = &[
    "(", ")", "{", "}", "[", "]", "=", ";", ",", "::", ":", "->", "=>", "+", "-", "*", "/", ".", "&&", "||", "|", "!",
    "<", ">", ">=", "<=", "==", "!=", "#", "extern", "package", "import", "fn", "trait", "impl", "for", "enum",
    "struct", "type", "match", "if", "else", "let", "in", "return", "go", "while", "dyn", "true", "false", "_", "unit",
    "bool", "int8", "int32", "uint64", "float32", "string", "array", "x", "Foo", "main", "a_b1", "1", "42", "3.5",
    "2.0f32", "7i8", "9u64", "300i8", "\"s\"", "\"a\\nb\"", "\"\\u00e9\"", "\\\\ line\n", "\\\\ a\n  \\\\ b\n",
    "// c\n", " ", "\n", "\t", "\r\n", "\u{e9}", "\u{1F600}", "$", "@", "\"unterminated", "'", "`", "~", "%", "^",
    "?", "Vec", "Ref", "derive", "Self", "self",
];

fn enumerate(alpha: &[&str], len: usize, mut f: impl FnMut(u64, String)) {
    let n = alpha.len();
    let total = (n as u64).pow(len as u32);
    for k in 0..total {
        let mut s = String::new();
        let mut x = k;
        for _ in 0..len {
            s.push_str(alpha[(x % n as u64) as usize]);
            x /= n as u64;
        }
        f(k, s);
    }
}

pub fn corpus_files() -> Vec<(String, String)> {
    let mut out = Vec::new();
    let base = util::repo_root().join("crates/compiler/src/tests");
    for sub in ["pipeline", "package", "diagnostics", "typer"] {
        let mut stack = vec![base.join(sub)];
        while let Some(d) = stack.pop() {
            let Ok(rd) = std::fs::read_dir(&d) else { continue };
            let mut ents: Vec<_> = rd.filter_map(|e| e.ok()).map(|e| e.path()).collect();
            ents.sort();
            for p in ents {
                if p.is_dir() {
                    stack.push(p);
                } else if p.extension().map(|e| e == "gom").unwrap_or(false) {
                    if let Ok(s) = std::fs::read_to_string(&p) {
                        out.push((p.display().to_string(), s));
                    }
                }
            }
        }
    }
    out.sort();
    out
}

pub fn mutate(rng: &mut Rng, s: &str) -> String {
    let mut chars: Vec<char> = s.chars().collect();
    let n_edits = 1 + rng.below(3);
    for _ in 0..n_edits {
        if chars.is_empty() {
            chars.push('x');
            continue;
        }
        let i = rng.below(chars.len());
        match rng.below(7) {
            0 => {
                chars.remove(i);
            }
            1 => {
                let c = chars[i];
                chars.insert(i, c);
            }
            2 => {
                let j = rng.below(chars.len());
                chars.swap(i, j);
            }
            3 => {
                let t = rng.pick(TOKEN_POOL);
                for (k, c) in t.chars().enumerate() {
                    chars.insert((i + k).min(chars.len()), c);
                }
            }
            4 => {
                // delete a span
                let l = 1 + rng.below(20);
                let e = (i + l).min(chars.len());
                chars.drain(i..e);
            }
            5 => {
                // duplicate a span elsewhere
                let l = 1 + rng.below(30);
                let e = (i + l).min(chars.len());
                let span: Vec<char> = chars[i..e].to_vec();
                let j = rng.below(chars.len() + 1);
                for (k, c) in span.into_iter().enumerate() {
                    chars.insert((j + k).min(chars.len()), c);
                }
            }
            _ => {
                chars[i] = rng.pick(&['(', ')', '{', '}', '"', '\\', '\n', '|', ':', '.', '\u{e9}', '0', '_']);
            }
        }
    }
    chars.into_iter().collect()
}

/// Runs the Miri driver (/verif/miri) on `inputs` in a subprocess and folds what it reports into the case.
fn miri_batch(case: &mut Case, inputs: &[String]) {
    use std::io::Read;
    let dir = util::scratch_base().join(format!("gv-miri-{}-{}", std::process::id(), hash_str(&inputs.join("|")) % 100_000));
    let _ = std::fs::create_dir_all(&dir);
    let file = dir.join("inputs.txt");
    if std::fs::write(&file, inputs.join("\n\u{1e}\n")).is_err() {
        case.count("miri_not_run", 1);
        return;
    }
    case.input = Some(json!({"label": "miri", "inputs": inputs}));
    let manifest = util::verif_root().join("miri/Cargo.toml");
    let child = std::process::Command::new("cargo")
        .arg("+nightly")
        .arg("miri")
        .arg("run")
        .arg("--offline")
        .arg("--quiet")
        .arg("--manifest-path")
        .arg(&manifest)
        .arg("--")
        .arg(&file)
        .env("CARGO_NET_OFFLINE", "true")
        .env("MIRIFLAGS", "-Zmiri-disable-isolation -Zmiri-disable-stacked-borrows")
        .stdin(std::process::Stdio::null())
        .stdout(std::process::Stdio::piped())
        .stderr(std::process::Stdio::piped())
        .spawn();
    let Ok(mut child) = child else {
        case.count("miri_not_run", 1);
        let _ = std::fs::remove_dir_all(&dir);
        return;
    };
    // generous wall-clock watchdog; its firing is "not observed", not a verdict
    let t0 = std::time::Instant::now();
    let mut out_pipe = child.stdout.take();
    let mut err_pipe = child.stderr.take();
    let th_out = std::thread::spawn(move || {
        let mut s = String::new();
        if let Some(p) = out_pipe.as_mut() {
            let _ = p.read_to_string(&mut s);
        }
        s
    });
    let th_err = std::thread::spawn(move || {
        let mut s = String::new();
        if let Some(p) = err_pipe.as_mut() {
            let _ = p.read_to_string(&mut s);
        }
        s
    });
    let mut timed_out = false;
    let status = loop {
        match child.try_wait() {
            Ok(Some(st)) => break Some(st),
            Ok(None) => {
                if t0.elapsed().as_secs() > 1500 {
                    let _ = child.kill();
                    let _ = child.wait();
                    timed_out = true;
                    break None;
                }
                std::thread::sleep(std::time::Duration::from_millis(200));
            }
            Err(_) => break None,
        }
    };
    let stdout = th_out.join().unwrap_or_default();
    let stderr = th_err.join().unwrap_or_default();
    let _ = std::fs::remove_dir_all(&dir);
    if timed_out {
        case.count("miri_timeouts", 1);
        return;
    }
    let first_repo_frame = |text: &str| -> Option<String> {
        text.lines().find_map(|l| {
            let k = l.find("/repo/crates/")?;
            let rest = &l[k + "/repo/".len()..];
            let end = rest.find(|ch: char| ch == ':' || ch.is_whitespace()).unwrap_or(rest.len());
            Some(rest[..end].to_string())
        })
    };
    if stderr.contains("Undefined Behavior") {
        match first_repo_frame(&stderr) {
            Some(fr) => {
                let what = stderr.lines().find(|l| l.contains("Undefined Behavior")).unwrap_or("").trim().to_string();
                case.violation(format!("miri-undefined-behaviour:{}", fr), format!("Miri reports undefined behaviour in the front end: {}", util::truncate(&what, 200)), json!({"stderr": util::truncate(&stderr, 4000), "inputs": inputs}));
            }
            None => case.count("miri_reports_outside_repository", 1),
        }
        return;
    }
    if let Some(l) = stdout.lines().find(|l| l.starts_with("MIRI-DRIVER-MISMATCH")) {
        case.violation("miri-driver-mismatch".to_string(), format!("the front-end driver under Miri reports: {}", l), json!({"stdout": util::truncate(&stdout, 2000), "inputs": inputs}));
        return;
    }
    if let Some(l) = stdout.lines().find(|l| l.starts_with("MIRI-DRIVER-OK")) {
        let num = |key: &str| -> u64 {
            l.split_whitespace().find_map(|w| w.strip_prefix(key).and_then(|v| v.parse::<u64>().ok())).unwrap_or(0)
        };
        case.count("miri_runs_clean", 1);
        case.count("miri_inputs", num("inputs="));
        case.count("miri_tokens", num("tokens="));
        case.count("miri_tree_elements", num("elements="));
        case.sample(json!({"workload": "miri", "inputs": inputs.len(), "report": l}));
        return;
    }
    if stderr.contains("panicked at") {
        if let Some(fr) = first_repo_frame(&stderr) {
            let what = stderr.lines().find(|l| l.contains("panicked at")).unwrap_or("").trim().to_string();
            case.violation(format!("miri-driver-panic:{}", fr), format!("the front end panics under the Miri driver: {}", util::truncate(&what, 200)), json!({"stderr": util::truncate(&stderr, 4000), "inputs": inputs}));
            return;
        }
    }
    let _ = status;
    case.count("miri_not_run", 1);
    eprintln!("miri driver gave no report: {}", util::truncate(&stderr, 400));
}

fn run(ctx: &mut Ctx) {
    if let Some(rep) = ctx.replay_input.clone() {
        let mut inputs: Vec<String> = Vec::new();
        if let Some(i) = rep["record"]["detail"]["input"].as_str() {
            inputs.push(i.to_string());
        } else if let Some(a) = rep["record"]["input"]["inputs"].as_array() {
            inputs.extend(a.iter().filter_map(|v| v.as_str().map(|s| s.to_string())));
        }
        for (i, inp) in inputs.iter().enumerate() {
            ctx.case(&format!("replay/{}", i), |c| check_batch(c, "replay", &[inp.clone()]));
        }
        return;
    }
    let tier = ctx.tier;
    let seed = ctx.seed;
    // A. exhaustive short strings
    let max_len = tier.pick(3, 4);
    let mut batch: Vec<String> = Vec::new();
    let mut batch_no = 0u64;
    for len in 0..=max_len {
        let mut pending: Vec<(u64, String)> = Vec::new();
        enumerate(ALPHABET, len, |k, s| pending.push((k, s)));
        for (_k, s) in pending {
            batch.push(s);
            if batch.len() == 512 {
                batch_no += 1;
                if ctx.mine(batch_no) {
                    let b = std::mem::take(&mut batch);
                    ctx.case(&format!("exh28/len{}/batch{}", len, batch_no), |c| check_batch(c, "exhaustive28", &b));
                } else {
                    batch.clear();
                }
            }
        }
        batch_no += 1;
        if ctx.mine(batch_no) && !batch.is_empty() {
            let b = std::mem::take(&mut batch);
            ctx.case(&format!("exh28/len{}/tail", len), |c| check_batch(c, "exhaustive28", &b));
        }
        batch.clear();
    }
    if ctx.shard == 0 {
        ctx.add_stat("exhaustive28_max_len", max_len as u64);
    }
    if tier == crate::runner::Tier::Thorough {
        for len in 5..=6 {
            let mut pending: Vec<String> = Vec::new();
            enumerate(SMALL_ALPHABET, len, |_k, s| pending.push(s));
            for chunk in pending.chunks(512) {
                batch_no += 1;
                if ctx.mine(batch_no) {
                    let b = chunk.to_vec();
                    ctx.case(&format!("exh10/len{}/batch{}", len, batch_no), |c| check_batch(c, "exhaustive10", &b));
                }
            }
        }
    }
    // B. token soups
    let soups = tier.pickn(600, 20_000) / ctx.nshards as u64 + 1;
    for i in 0..soups {
        let mut rng = Rng::keyed(seed, "c12-soup", ctx.shard as u64, i);
        let mut b = Vec::new();
        for _ in 0..16 {
            let cap = if rng.chance(1, 8) { 200 } else { 30 };
            let n = 1 + rng.below(cap);
            let mut s = String::new();
            for _ in 0..n {
                s.push_str(rng.pick(TOKEN_POOL));
                if rng.chance(1, 3) {
                    s.push(' ');
                }
            }
            b.push(s);
        }
        ctx.case(&format!("soup/{}/{}", ctx.shard, i), |c| check_batch(c, "token_soup", &b));
    }
    // C. multiline-string torture
    let ml = tier.pickn(200, 5_000) / ctx.nshards as u64 + 1;
    let ml_parts: &[&str] = ML_PARTS;
    for i in 0..ml {
        let mut rng = Rng::keyed(seed, "c12-ml", ctx.shard as u64, i);
        let mut b = Vec::new();
        for _ in 0..32 {
            let n = 1 + rng.below(10);
            let mut s = String::new();
            for _ in 0..n {
                s.push_str(rng.pick(ml_parts));
            }
            b.push(s);
        }
        ctx.case(&format!("multiline/{}/{}", ctx.shard, i), |c| check_batch(c, "multiline", &b));
    }
    // D. corpus: verbatim, every-boundary prefixes (sampled in quick), mutations
    let corpus = corpus_files();
    for (fi, (name, text)) in corpus.iter().enumerate() {
        if !ctx.mine(fi as u64) {
            continue;
        }
        ctx.case(&format!("corpus/{}", name), |c| check_batch(c, "corpus", &[text.clone()]));
        // the file with one special character (byte-order mark, zero-width / line / paragraph separators, NUL,
        // CR, form feed, ...) before its first byte, after its last byte, and after its first line
        ctx.case(&format!("corpus-special/{}", name), |c| {
            let mut b = Vec::new();
            let first_nl = text.find('\n').map(|k| k + 1).unwrap_or(text.len());
            for sp in SPECIAL_CHARS {
                b.push(format!("{}{}", sp, text));
                b.push(format!("{}{}", text, sp));
                b.push(format!("{}{}{}", &text[..first_nl], sp, &text[first_nl..]));
            }
            check_batch(c, "special_chars", &b)
        });
        // prefixes at token boundaries
        let toks = lexer::lex(text);
        let mut cuts: Vec<usize> = toks.iter().map(|t| usize::from(t.range.end())).collect();
        if tier == crate::runner::Tier::Quick && cuts.len() > 40 {
            let mut rng = Rng::keyed(seed, "c12-cuts", fi as u64, 0);
            rng.shuffle(&mut cuts);
            cuts.truncate(40);
        } else if cuts.len() > 1500 {
            let mut rng = Rng::keyed(seed, "c12-cuts", fi as u64, 0);
            rng.shuffle(&mut cuts);
            cuts.truncate(1500);
        }
        for chunk in cuts.chunks(64) {
            let b: Vec<String> = chunk.iter().filter(|c| text.is_char_boundary(**c)).map(|c| text[..*c].to_string()).collect();
            ctx.case(&format!("prefix/{}/{}", name, chunk[0]), |c| check_batch(c, "corpus_prefix", &b));
        }
        let muts = tier.pick(24, 400);
        let mut rng = Rng::keyed(seed, "c12-mut", fi as u64, 1);
        let mut b = Vec::new();
        for _ in 0..muts {
            b.push(mutate(&mut rng, text));
            if b.len() == 32 {
                let bb = std::mem::take(&mut b);
                ctx.case(&format!("mutate/{}", name), |c| check_batch(c, "corpus_mutation", &bb));
            }
        }
        if !b.is_empty() {
            ctx.case(&format!("mutate/{}", name), |c| check_batch(c, "corpus_mutation", &b));
        }
    }
    // F. look-ahead-budget inputs: a unit repeated n times between a prefix and a suffix that carries
    // further items (the parser may burn its 256-peek budget inside the repetition; everything after
    // must still be in the tree)
    {
        let units: &[&str] = &["(", "[", "f(", "{ ", "a::", "-", "!", "|| ", "if x { ", "match x { _ => ", "(1, ", "x.", "1 + ", "S { f: ", "Vec[", "dyn ", "#[a]", "|", ",", "else ", "=> "];
        let prefixes: &[&str] = &["fn main() { let _ = ", "fn main() { ", "impl ", "struct S { x: ", "fn f(x: ", "enum E { A(", "trait T { fn m(", "let ", ""];
        let suffixes: &[&str] = &["a for S { }\nfn g() { }\n", "a) { }\nfn g() { }\n", "; }\nfn g() { }\nfn h() { 1 + }\n", " }\nfn g() { }\n", "\nfn g() { }\nstruct Z { }\n", ", 1)\nfn g() { let z = ; }\n", ""];
        let counts: &[usize] = &[1, 2, 10, 25, 26, 27, 50, 51, 52, 64, 100, 125, 126, 127, 128, 129, 130, 200, 255, 256, 257, 300, 600];
        let mut k = 0u64;
        let mut batch: Vec<String> = Vec::new();
        for u in units {
            for pre in prefixes {
                for suf in suffixes {
                    k += 1;
                    if !ctx.mine(k) {
                        continue;
                    }
                    for n in counts {
                        if tier == crate::runner::Tier::Quick && !matches!(*n, 1 | 26 | 51 | 52 | 126 | 128 | 130 | 257 | 300) {
                            continue;
                        }
                        batch.push(format!("{}{}{}", pre, u.repeat(*n), suf));
                    }
                    if batch.len() >= 64 {
                        let b = std::mem::take(&mut batch);
                        ctx.case(&format!("lookahead/{}", k), |c| check_batch(c, "lookahead_budget", &b));
                    }
                }
            }
        }
        if !batch.is_empty() {
            let b = std::mem::take(&mut batch);
            ctx.case("lookahead/tail", |c| check_batch(c, "lookahead_budget", &b));
        }
    }
    // G. sanitizer supplement: the same front-end driver (lexer tiling, lossless tree, every element's kind read through
    // `kind_from_raw`'s transmute, trees dropped in two orders) under Miri on a small slice of the inputs of this shard.
    // Only when ./check could build the driver (VERIF_MIRI=1); everything but an undefined-behaviour report, a mismatch
    // or a panic whose first repository frame is in crates/ is recorded as "not observed", never as a violation.
    if std::env::var("VERIF_MIRI").as_deref() == Ok("1") && (tier == crate::runner::Tier::Thorough || ctx.shard < 4) {
        let budget = tier.pick(700usize, 5_000usize);
        let mut inputs: Vec<String> = Vec::new();
        let mut used = 0usize;
        let mut rng = Rng::keyed(seed, "c12-miri", ctx.shard as u64, 0);
        let mut order: Vec<usize> = (0..corpus.len()).filter(|fi| ctx.mine(*fi as u64)).collect();
        rng.shuffle(&mut order);
        for fi in order {
            let t = &corpus[fi].1;
            if used + t.len() <= budget * 2 / 3 && !t.contains('\u{1e}') {
                used += t.len();
                inputs.push(t.clone());
                // a truncated and a mutated sibling (error recovery paths)
                let cut = (0..t.len()).rev().find(|k| t.is_char_boundary(*k) && *k <= t.len() / 2).unwrap_or(0);
                inputs.push(t[..cut].to_string());
                used += cut;
                let m = mutate(&mut rng, t);
                if !m.contains('\u{1e}') {
                    used += m.len();
                    inputs.push(m);
                }
            }
        }
        while used < budget {
            let mut s2 = String::new();
            for _ in 0..(1 + rng.below(25)) {
                s2.push_str(if rng.bool() { rng.pick(TOKEN_POOL) } else { rng.pick(ML_PARTS) });
            }
            used += s2.len() + 1;
            inputs.push(s2);
        }
        ctx.case(&format!("miri/{}", ctx.shard), |c| miri_batch(c, &inputs));
    }
    if std::env::var("VERIF_MIRI").as_deref() != Ok("1") && ctx.shard == 0 {
        // the sanitizer supplement was not observed in this run (the driver could not be built / run here, or it was
        // switched off): said in the evidence, no verdict depends on it
        ctx.add_stat("miri_unavailable", 1);
    }
    // E. parser-fuel inputs (long runs of a token the parser may refuse to consume)
    if ctx.shard == 0 {
        let mut b = Vec::new();
        for t in TOKEN_POOL {
            for n in [1usize, 2, 257, 300, 1000] {
                b.push(t.repeat(n));
                b.push(format!("fn main() {{ {} }}", format!("{} ", t).repeat(n)));
            }
        }
        for chunk in b.chunks(64) {
            let bb = chunk.to_vec();
            ctx.case("fuel", |c| check_batch(c, "fuel", &bb));
        }
    }
}
