//! Multi-package project model: renders goml sources and computes, independently of the
//! compiler, the stdout the program must produce (a small reference semantics of the
//! templates). Also provides edit operations (body-only vs interface-visible) and
//! ill-formed variants (used by C13-C16).

use crate::util::Rng;
use std::path::{Path, PathBuf};

pub const LIB_NAMES: &[&str] = &["Alpha", "Beta", "Gamma", "Delta", "Eps", "Zeta"];

#[derive(Clone, Debug)]
pub struct Lib {
    pub name: String,
    pub c: i32,
    pub d: i32,
    /// indices (into Project::libs) of imported libraries; always > own index (acyclic)
    pub imports: Vec<usize>,
    pub has_struct: bool,
    pub has_enum: bool,
    pub has_trait: bool,
    pub has_generic: bool,
    /// imported libs whose struct this lib consumes in a cross function
    pub cross: Vec<usize>,
    /// imported libs whose trait this lib implements for its own struct
    pub foreign_impl: Vec<usize>,
    /// interface-visible extras (toggled by edits)
    pub extra_fn: bool,
    pub extra_field: bool,
    pub extra_variant: bool,
    pub extra_param: bool,
    pub extra_trait_method: bool,
    pub extra_impl: bool,
    /// body-only knob: changes a constant inside a function body
    pub body_knob: i32,
    /// body-only knob 2: add an unused local / reorder statements
    pub body_shape: u8,
    pub n_files: u8,
    /// file names that differ in case (`Types.gom`, `impls.gom`): byte order and case-insensitive order disagree
    pub mixed_case_files: bool,
}

#[derive(Clone, Debug)]
pub enum Call {
    F(usize, i32),
    Sum(usize, i32),
    Pick(usize, bool, i32),
    Id(usize, i32),
    Desc(usize, i32),
    DescInt(usize, i32),
    Show(usize, i32),
    Cross(usize, usize, i32),
    Foreign(usize, usize, i32),
    Unwrap(usize, bool, i32),
    Extra(usize, i32),
}

impl Lib {
    /// number of methods the library's trait has besides `desc` (0..=4)
    pub fn trait_method_count(&self) -> usize {
        ((self.c + self.d).rem_euclid(5)) as usize
    }
}

#[derive(Clone, Debug)]
pub struct Project {
    pub libs: Vec<Lib>,
    pub main_imports: Vec<usize>,
    pub calls: Vec<Call>,
    pub main_files: u8,
    /// body-only knob of Main (an extra unused local in `main`)
    pub main_body_knob: i32,
    /// interface-visible knob of Main (an extra top-level function)
    pub main_extra_fn: bool,
}

fn w(x: i64) -> i32 {
    x as i32
}

impl Project {
    pub fn generate(rng: &mut Rng, max_libs: usize) -> Project {
        let n = 1 + rng.below(max_libs.max(1));
        let mut libs: Vec<Lib> = Vec::new();
        let mut names: Vec<&str> = LIB_NAMES.to_vec();
        rng.shuffle(&mut names);
        for i in 0..n {
            let mut imports = Vec::new();
            for j in (i + 1)..n {
                if rng.chance(1, 2) {
                    imports.push(j);
                }
            }
            libs.push(Lib {
                name: names[i].to_string(),
                c: rng.range(2, 9) as i32,
                d: rng.range(0, 20) as i32,
                imports,
                has_struct: true,
                has_enum: rng.chance(3, 4),
                has_trait: rng.chance(3, 4),
                has_generic: rng.chance(3, 4),
                cross: Vec::new(),
                foreign_impl: Vec::new(),
                extra_fn: false,
                extra_field: false,
                extra_variant: false,
                extra_param: false,
                extra_trait_method: false,
                extra_impl: false,
                body_knob: 0,
                body_shape: 0,
                n_files: 1 + rng.below(3) as u8,
                mixed_case_files: false,
            });
        }
        for i in 0..n {
            let imps = libs[i].imports.clone();
            for j in imps {
                if rng.chance(1, 2) {
                    libs[i].cross.push(j);
                }
                if libs[j].has_trait && rng.chance(1, 2) {
                    libs[i].foreign_impl.push(j);
                }
            }
        }
        // Main imports: every lib not imported by another lib, plus random others (so all are reachable)
        let mut main_imports = Vec::new();
        for j in 0..n {
            let imported_by_other = (0..n).any(|i| libs[i].imports.contains(&j));
            if !imported_by_other || rng.chance(1, 2) {
                main_imports.push(j);
            }
        }
        let mut p = Project {
            libs,
            main_imports,
            calls: Vec::new(),
            main_files: 1 + rng.below(2) as u8,
            main_body_knob: 0,
            main_extra_fn: false,
        };
        p.regen_calls(rng);
        p
    }

    pub fn regen_calls(&mut self, rng: &mut Rng) {
        let mut calls = Vec::new();
        for &k in &self.main_imports.clone() {
            let l = &self.libs[k];
            let a = rng.range(-5, 30) as i32;
            calls.push(Call::F(k, a));
            calls.push(Call::Sum(k, a));
            if l.has_enum {
                calls.push(Call::Pick(k, rng.bool(), a));
            }
            if l.has_generic {
                calls.push(Call::Id(k, a));
                calls.push(Call::Unwrap(k, rng.bool(), a));
            }
            if l.has_trait {
                calls.push(Call::Desc(k, a));
                calls.push(Call::DescInt(k, a));
                calls.push(Call::Show(k, a));
            }
            for &j in &l.cross {
                if self.main_imports.contains(&j) {
                    calls.push(Call::Cross(k, j, a));
                }
            }
            for &j in &l.foreign_impl {
                if self.main_imports.contains(&j) {
                    calls.push(Call::Foreign(k, j, a));
                }
            }
        }
        rng.shuffle(&mut calls);
        self.calls = calls;
    }

    // ---------- reference semantics ----------
    pub fn f(&self, k: usize, x: i32) -> i32 {
        let l = &self.libs[k];
        let mut r = w(x as i64 * l.c as i64);
        r = r.wrapping_add(l.d).wrapping_add(l.body_knob);
        for &j in &l.imports {
            r = r.wrapping_add(self.f(j, x.wrapping_add(1)));
        }
        r
    }
    fn sum(&self, k: usize, v: i32) -> i32 {
        // mk(v) = S { v, w: v + c }; sum = v + w
        let l = &self.libs[k];
        v.wrapping_add(v.wrapping_add(l.c))
    }
    fn desc(&self, k: usize, v: i32) -> String {
        format!("{}S({})", self.libs[k].name, v)
    }
    pub fn eval_call(&self, c: &Call) -> String {
        match c {
            Call::F(k, a) => format!("{}", self.f(*k, *a)),
            Call::Sum(k, a) => format!("{}", self.sum(*k, *a)),
            Call::Pick(k, is_b, a) => {
                let l = &self.libs[*k];
                if *is_b { format!("{}", a.wrapping_add(l.c)) } else { format!("{}", l.c) }
            }
            Call::Id(_k, a) => format!("{}", a),
            Call::Desc(k, a) => self.desc(*k, *a),
            Call::DescInt(k, a) => format!("{}I({})", self.libs[*k].name, a),
            Call::Show(k, a) => format!("<{}>", self.desc(*k, *a)),
            Call::Cross(k, j, a) => format!("{}", self.sum(*j, *a).wrapping_add(self.libs[*k].c)),
            Call::Foreign(k, j, a) => format!("{}via{}({})", self.libs[*k].name, self.libs[*j].name, a),
            Call::Unwrap(_k, some, a) => if *some { format!("{}", a) } else { "-1".to_string() },
            Call::Extra(k, a) => format!("{}", a.wrapping_add(self.libs[*k].c).wrapping_add(100)),
        }
    }
    pub fn expected_stdout(&self) -> String {
        let mut s = String::new();
        for c in &self.calls {
            s.push_str(&self.eval_call(c));
            s.push('\n');
        }
        s
    }

    // ---------- rendering ----------
    fn lit(a: i32) -> String {
        if a < 0 { format!("(0 - {})", -(a as i64)) } else { format!("{}", a) }
    }

    fn render_call(&self, c: &Call) -> String {
        let n = |k: &usize| self.libs[*k].name.clone();
        match c {
            Call::F(k, a) => format!("int32_to_string({}::f({}))", n(k), Self::lit(*a)),
            Call::Sum(k, a) => format!("int32_to_string({}::sum({}::mk({})))", n(k), n(k), Self::lit(*a)),
            Call::Pick(k, is_b, a) => {
                if *is_b {
                    format!("int32_to_string({}::pick({}::E::B({})))", n(k), n(k), Self::lit(*a))
                } else {
                    format!("int32_to_string({}::pick({}::E::A))", n(k), n(k))
                }
            }
            Call::Id(k, a) => format!("int32_to_string({}::id({}))", n(k), Self::lit(*a)),
            Call::Desc(k, a) => format!("{}::T::desc({}::mk({}))", n(k), n(k), Self::lit(*a)),
            Call::DescInt(k, a) => format!("{}::T::desc({})", n(k), Self::lit(*a)),
            Call::Show(k, a) => format!("{}::show({}::mk({}))", n(k), n(k), Self::lit(*a)),
            Call::Cross(k, j, a) => format!("int32_to_string({}::cross{}({}::mk({})))", n(k), n(j), n(j), Self::lit(*a)),
            Call::Foreign(k, j, a) => format!("{}::T::desc({}::mk({}))", n(j), n(k), Self::lit(*a)).replace("PLACEHOLDER", ""),
            Call::Unwrap(k, some, a) => {
                if *some {
                    format!("int32_to_string({}::unwrap({}::Opt::Some({}), (0 - 1)))", n(k), n(k), Self::lit(*a))
                } else {
                    let _ = a;
                    format!("int32_to_string({}::unwrap({}::Opt::None, (0 - 1)))", n(k), n(k))
                }
            }
            Call::Extra(k, a) => format!("int32_to_string({}::extra({}))", n(k), Self::lit(*a)),
        }
    }

    fn lib_items(&self, k: usize) -> Vec<String> {
        let l = &self.libs[k];
        let mut items = Vec::new();
        let extra_field = if l.extra_field { ", z: int32" } else { "" };
        let extra_field_init = if l.extra_field { ", z: 0" } else { "" };
        items.push(format!("struct S {{ v: int32, w: int32{} }}", extra_field));
        let mk_param = if l.extra_param { ", unused: bool" } else { "" };
        let _ = mk_param;
        items.push(format!("fn mk(v: int32) -> S {{ S {{ v: v, w: v + {}{} }} }}", l.c, extra_field_init));
        items.push("fn sum(s: S) -> int32 { s.v + s.w }".to_string());
        // f
        let mut body = String::new();
        match l.body_shape % 3 {
            0 => body.push_str(&format!("let base = x * {} + {};\n    ", l.c, l.d + l.body_knob)),
            1 => body.push_str(&format!("let unused_local = 7;\n    let base = x * {} + {};\n    ", l.c, l.d + l.body_knob)),
            _ => body.push_str(&format!("let k = {};\n    let base = x * {} + k;\n    ", l.d + l.body_knob, l.c)),
        }
        let mut acc = String::from("base");
        for &j in &l.imports {
            acc = format!("{} + {}::f(x + 1)", acc, self.libs[j].name);
        }
        body.push_str(&acc);
        let fparams = if l.extra_param { "x: int32, flag: bool" } else { "x: int32" };
        if l.extra_param {
            // keep the one-argument entry point for callers: f stays, f2 gets the new parameter
            items.push(format!("fn f2({}) -> int32 {{ if flag {{ x }} else {{ 0 }} }}", fparams));
        }
        items.push(format!("fn f(x: int32) -> int32 {{\n    {}\n}}", body));
        if l.has_enum {
            let ev = if l.extra_variant { ", C(int32, int32)" } else { "" };
            let arm = if l.extra_variant { ", E::C(a, b) => a + b" } else { "" };
            items.push(format!("enum E {{ A, B(int32){} }}", ev));
            items.push(format!("fn pick(e: E) -> int32 {{ match e {{ E::A => {}, E::B(n) => n + {}{} }} }}", l.c, l.c, arm));
        }
        if l.has_generic {
            items.push("fn id[T](x: T) -> T { x }".to_string());
            items.push("enum Opt[T] { Some(T), None }".to_string());
            items.push("fn unwrap[T](o: Opt[T], d: T) -> T { match o { Opt::Some(v) => v, Opt::None => d } }".to_string());
        }
        if l.has_trait {
            // besides `desc` the trait has (c + d) % 5 further methods (derived from the library's constants, so no
            // extra random draw): impls with several methods are where the ORDER of an impl's method table can leak
            // into interfaces and cores (added after a seeded change that rebuilt it from a HashSet)
            let more = |who: &str, lib: &Lib| -> String {
                let mut s = String::new();
                for k in 0..lib.trait_method_count() {
                    s.push_str(&match who {
                        "decl" => format!(" fn m{}(Self) -> int32;", k),
                        "S" => format!(" fn m{}(self: S) -> int32 {{ self.v + {} }}", k, k),
                        "int32" => format!(" fn m{}(self: int32) -> int32 {{ self + {} }}", k, k),
                        _ => format!(" fn m{}(self: bool) -> int32 {{ {} }}", k, k),
                    });
                }
                s
            };
            let tm = if l.extra_trait_method { " fn extra_m(Self) -> int32;" } else { "" };
            let tmi_s = if l.extra_trait_method { " fn extra_m(self: S) -> int32 { self.v }" } else { "" };
            let tmi_i = if l.extra_trait_method { " fn extra_m(self: int32) -> int32 { self }" } else { "" };
            items.push(format!("trait T {{ fn desc(Self) -> string;{}{} }}", more("decl", l), tm));
            items.push(format!(
                "impl T for S {{ fn desc(self: S) -> string {{ \"{}S(\" + int32_to_string(self.v) + \")\" }}{}{} }}",
                l.name, more("S", l), tmi_s
            ));
            items.push(format!(
                "impl T for int32 {{ fn desc(self: int32) -> string {{ \"{}I(\" + int32_to_string(self) + \")\" }}{}{} }}",
                l.name, more("int32", l), tmi_i
            ));
            items.push("fn show[X: T](x: X) -> string { \"<\" + T::desc(x) + \">\" }".to_string());
            if l.extra_impl {
                let tmi_b = if l.extra_trait_method { " fn extra_m(self: bool) -> int32 { 0 }" } else { "" };
                items.push(format!("impl T for bool {{ fn desc(self: bool) -> string {{ \"b\" }}{}{} }}", more("bool", l), tmi_b));
            }
        }
        for &j in &l.cross {
            let jn = &self.libs[j].name;
            items.push(format!("fn cross{}(s: {}::S) -> int32 {{ {}::sum(s) + {} }}", jn, jn, jn, l.c));
        }
        for &j in &l.foreign_impl {
            let jl = &self.libs[j];
            let tmi = if jl.extra_trait_method { " fn extra_m(self: S) -> int32 { self.w }" } else { "" };
            let mut more_f = String::new();
            for k in 0..jl.trait_method_count() {
                more_f.push_str(&format!(" fn m{}(self: S) -> int32 {{ self.v + {} }}", k, k));
            }
            items.push(format!(
                "impl {}::T for S {{ fn desc(self: S) -> string {{ \"{}via{}(\" + int32_to_string(self.v) + \")\" }}{}{} }}",
                jl.name, l.name, jl.name, more_f, tmi
            ));
        }
        if l.extra_fn {
            items.push(format!("fn extra(x: int32) -> int32 {{ x + {} + 100 }}", l.c));
        }
        items
    }

    /// (relative path, text) for every source file.
    pub fn render(&self) -> Vec<(PathBuf, String)> {
        let mut out = Vec::new();
        for (k, l) in self.libs.iter().enumerate() {
            let items = self.lib_items(k);
            let nf = (l.n_files as usize).clamp(1, 3).min(items.len().max(1));
            // file names in the order the compiler reads them (sorted); a trait must be declared
            // before any impl of it in that order, so trait declarations go first into the first file
            let fnames: &[&str] = match (nf, l.mixed_case_files) {
                (1, _) => &["lib.gom"],
                (2, false) => &["a_part.gom", "lib.gom"],
                (2, true) => &["Types.gom", "impls.gom"],
                (_, false) => &["a_part.gom", "lib.gom", "z_more.gom"],
                (_, true) => &["Types.gom", "Zeta.gom", "impls.gom"],
            };
            let mut header = format!("package {}\n", l.name);
            for &j in &l.imports {
                header.push_str(&format!("import {}\n", self.libs[j].name));
            }
            let mut files: Vec<String> = (0..nf).map(|_| header.clone() + "\n").collect();
            for it in items.iter().filter(|it| it.starts_with("trait ")) {
                files[0].push_str(it);
                files[0].push_str("\n\n");
            }
            for (i, it) in items.iter().filter(|it| !it.starts_with("trait ")).enumerate() {
                files[i % nf].push_str(it);
                files[i % nf].push_str("\n\n");
            }
            for (i, text) in files.into_iter().enumerate() {
                out.push((Path::new(&l.name).join(fnames[i]), text));
            }
        }
        // Main
        let mut header = String::from("package Main\n");
        for &j in &self.main_imports {
            header.push_str(&format!("import {}\n", self.libs[j].name));
        }
        let mut main = header.clone();
        main.push('\n');
        let split = self.main_files > 1 && self.calls.len() >= 2;
        let (first, second) = if split { self.calls.split_at(self.calls.len() / 2) } else { (&self.calls[..], &self.calls[0..0]) };
        if self.main_extra_fn {
            main.push_str("fn main_helper() -> int32 { 1 }\n\n");
        }
        main.push_str("fn main() {\n");
        if self.main_body_knob != 0 {
            main.push_str(&format!("    let knob_local = {};\n", self.main_body_knob));
        }
        for c in first {
            main.push_str(&format!("    let _ = string_println({});\n", self.render_call(c)));
        }
        if split {
            main.push_str("    let _ = rest();\n");
        }
        main.push_str("    ()\n}\n");
        out.push((PathBuf::from("main.gom"), main));
        if split {
            let mut r = header;
            r.push_str("\nfn rest() -> unit {\n");
            for c in second {
                r.push_str(&format!("    let _ = string_println({});\n", self.render_call(c)));
            }
            r.push_str("    ()\n}\n");
            out.push((PathBuf::from("rest.gom"), r));
        }
        out
    }

    /// Package names in dependency order (dependencies first), Main last.
    pub fn topo_order(&self) -> Vec<String> {
        let mut v: Vec<String> = (0..self.libs.len()).rev().map(|k| self.libs[k].name.clone()).collect();
        v.push("Main".into());
        v
    }

    pub fn reachable_libs(&self) -> Vec<usize> {
        let mut seen = vec![false; self.libs.len()];
        let mut stack: Vec<usize> = self.main_imports.clone();
        while let Some(k) = stack.pop() {
            if seen[k] {
                continue;
            }
            seen[k] = true;
            stack.extend(self.libs[k].imports.iter().copied());
        }
        (0..self.libs.len()).filter(|k| seen[*k]).collect()
    }

    pub fn deps_of(&self, pkg: &str) -> Vec<String> {
        if pkg == "Main" {
            return self.main_imports.iter().map(|k| self.libs[*k].name.clone()).collect();
        }
        let k = self.libs.iter().position(|l| l.name == pkg).unwrap();
        self.libs[k].imports.iter().map(|j| self.libs[*j].name.clone()).collect()
    }
}

/// Write a rendered project under `root`, creating files in the given order (tmpfs enumerates
/// directories in reverse creation order, so the order is observable by read_dir).
pub fn materialize(root: &Path, files: &[(PathBuf, String)], order: &[usize]) -> std::io::Result<()> {
    std::fs::create_dir_all(root)?;
    for &i in order {
        let (rel, text) = &files[i];
        let p = root.join(rel);
        if let Some(parent) = p.parent() {
            std::fs::create_dir_all(parent)?;
        }
        std::fs::write(&p, text)?;
    }
    Ok(())
}

pub fn read_dir_order(dir: &Path) -> Vec<String> {
    std::fs::read_dir(dir)
        .map(|rd| rd.filter_map(|e| e.ok()).map(|e| e.file_name().to_string_lossy().to_string()).collect())
        .unwrap_or_default()
}
