//! C08: closures keep their lexical meaning after lambda lifting.
//! Systematic (body shape x capture kind x flow) closure programs + random closure-heavy programs,
//! executed and compared with refsem; the emitted Go must also be valid (an unbound captured variable
//! shows up as an undefined identifier).
use crate::diff::{self, DiffOpts, Outcome};
use crate::gl::ast::*;
use crate::gl::pgen::{Features, generate};
use crate::runner::{Ctx, PropSpec};
use crate::util::{self, Rng, hash_str};
use serde_json::json;

pub static SPEC: PropSpec = PropSpec {
    id: "C08",
    level: "exploration",
    rule: "tests: closure body shape (14: a captured dyn value used only as dyn-call receiver, arithmetic, if, int / string / tuple / enum matches with the captured variable in one arm only - including only the default arm -, capture through an inner closure only, shadowing inside the body, loops, Ref reads and updates, calling a captured function value, struct field of a captured struct) x capture kind (8: parameter, shadowed let, tuple-pattern variable, match-arm variable, outer closure parameter, value read from a Ref, the Ref cell itself, top-level function value) x flow (6: direct call, returned from a function - directly, in a flat tuple, nested in tuples on the left / right, in a field of a generic struct instantiated at the function type, in a field of a plain struct taken out by a struct pattern, in one of two function-typed fields of a struct whose other one holds a plain function value; the helper named plainly, with a trailing `_`, with `__` inside, or an inherent method called in path and dot form -, two closures sharing a Ref returned in a tuple, captured by another closure, created and called in a loop, nested three deep); exhaustive over the product, packed 24 tests per program; in every other cell whose body does not mention it, the closure parameter is named like the enclosing function's parameter `a`; plus random closure-heavy programs. non-trivial: all tests; distinct by (shape, capture, flow)",
    eval_counter: "tests",
    assumptions: &["closure values flowing into function-typed parameters / struct fields / heterogeneous branches are outside the clean lattice (recorded C02 finding); relative to refsem and gomini"],
    crash_is_violation: false,
    stack_mib: 256,
    case_cpu_s: 120,
    shards: 0,
    run,
    floors: &[("tests", 500, 4_000), ("programs_agree", 20, 26), ("random_programs_agree", 80, 4_000)],
    finish: None,
};

fn i(v: i128) -> Expr {
    if v < 0 { Expr::Unary(UnOp::Neg, Box::new(Expr::Int(IntTy::I32, -v, false))) } else { Expr::Int(IntTy::I32, v, false) }
}
fn s(x: &str) -> Expr {
    Expr::Str(x.into())
}
fn var(x: &str) -> Expr {
    Expr::Var(x.into())
}
fn bi(f: &str, args: Vec<Expr>) -> Expr {
    Expr::Builtin(f.into(), args)
}
fn bin(op: BinOp, l: Expr, r: Expr) -> Expr {
    Expr::Binary(op, Box::new(l), Box::new(r))
}
fn blk(stmts: Vec<Stmt>, tail: Expr) -> Expr {
    Expr::Block(stmts, Some(Box::new(tail)))
}
fn let_(n: &str, e: Expr) -> Stmt {
    Stmt::Let(Pat::Var(n.into()), None, e)
}
fn discard(e: Expr) -> Stmt {
    Stmt::Let(Pat::Wild, None, e)
}
fn callv(f: Expr, args: Vec<Expr>) -> Expr {
    Expr::CallValue(Box::new(f), args)
}
fn clo(params: &[(&str, Ty)], body: Expr) -> Expr {
    Expr::Closure { params: params.iter().map(|(n, t)| (n.to_string(), Some(t.clone()))).collect(), body: Box::new(body) }
}
fn add(a: Expr, b: Expr) -> Expr {
    bin(BinOp::Add, a, b)
}

pub const N_SHAPES: usize = 14;
pub const N_CAPS: usize = 8;
pub const N_FLOWS: usize = 6;

/// closure body of type int32 over parameter `p` and captured expressions c1, c2 (both int32)
fn body(shape: usize, c1: Expr, c2: Expr, pname: &str) -> Expr {
    let p = || var(pname);
    match shape {
        0 => add(p(), add(bin(BinOp::Mul, c1, i(10)), c2)),
        1 => Expr::If(Box::new(bin(BinOp::Gt, p(), i(0))), Box::new(blk(vec![], c1)), Box::new(blk(vec![], c2))),
        // captured variable only in the default arm of an integer match
        2 => Expr::Match(Box::new(p()), vec![(Pat::Int(IntTy::I32, 0, false), c1), (Pat::Int(IntTy::I32, 1, false), i(5)), (Pat::Wild, c2)]),
        3 => Expr::Match(Box::new(p()), vec![(Pat::Int(IntTy::I32, 0, false), i(1)), (Pat::Var("other".into()), add(var("other"), c1))]),
        // string match, default arm only
        4 => blk(
            vec![let_("sp", Expr::If(Box::new(bin(BinOp::Gt, p(), i(1))), Box::new(blk(vec![], s("a"))), Box::new(blk(vec![], s("b")))))],
            Expr::Match(Box::new(var("sp")), vec![(Pat::Str("a".into()), i(3)), (Pat::Str("zz".into()), c2), (Pat::Wild, c1)]),
        ),
        5 => Expr::Match(
            Box::new(Expr::Tuple(vec![bin(BinOp::Gt, p(), i(0)), p()])),
            vec![(Pat::Tuple(vec![Pat::Bool(true), Pat::Int(IntTy::I32, 3, false)]), c1), (Pat::Tuple(vec![Pat::Wild, Pat::Var("n".into())]), add(var("n"), c2))],
        ),
        // c1 is used only inside an inner closure
        6 => blk(vec![let_("inner", clo(&[("q", I32)], add(var("q"), c1)))], add(callv(var("inner"), vec![p()]), c2)),
        // shadowing inside the body
        7 => blk(vec![let_("sh", add(c1.clone(), i(1))), let_("sh", add(var("sh"), c2))], add(var("sh"), p())),
        // loop p times accumulating c1
        8 => blk(
            vec![
                let_("acc", bi("ref", vec![c2])),
                let_("k", bi("ref", vec![i(0)])),
                Stmt::Expr(Expr::While(
                    Box::new(bin(BinOp::Lt, bi("ref_get", vec![var("k")]), p())),
                    Box::new(Expr::Block(vec![discard(bi("ref_set", vec![var("acc"), add(bi("ref_get", vec![var("acc")]), c1)])), discard(bi("ref_set", vec![var("k"), add(bi("ref_get", vec![var("k")]), i(1))]))], None)),
                )),
            ],
            bi("ref_get", vec![var("acc")]),
        ),
        // enum match, captured in one arm only
        9 => Expr::Match(
            Box::new(Expr::If(Box::new(bin(BinOp::Gt, p(), i(0))), Box::new(blk(vec![], Expr::Constr { enum_name: "Ev".into(), variant: "V2".into(), ty: Ty::Enum("Ev".into(), vec![]), args: vec![p(), i(2)], qualified: true })), Box::new(blk(vec![], Expr::Constr { enum_name: "Ev".into(), variant: "V0".into(), ty: Ty::Enum("Ev".into(), vec![]), args: vec![], qualified: true })))),
            vec![(Pat::Constr { enum_name: "Ev".into(), variant: "V0".into(), args: vec![], qualified: true }, c1), (Pat::Constr { enum_name: "Ev".into(), variant: "V2".into(), args: vec![Pat::Var("a".into()), Pat::Var("b".into())], qualified: true }, add(add(var("a"), var("b")), c2))],
        ),
        // printing inside the body (effect at call time)
        10 => blk(vec![discard(bi("string_println", vec![add(s("in body "), bi("int32_to_string", vec![c1]))]))], add(p(), c2)),
        // nested conditionals with both
        11 => Expr::If(
            Box::new(bin(BinOp::And, bin(BinOp::Gt, p(), i(0)), bin(BinOp::Lt, c1.clone(), i(100)))),
            Box::new(blk(vec![], bin(BinOp::Sub, c1, p()))),
            Box::new(blk(vec![], bin(BinOp::Mul, c2, i(2)))),
        ),
        // a captured dyn value used only as the receiver of a dyn call (bound by the test function, see `test`)
        13 => add(Expr::AssocCall { head: "Dv".into(), method: "val".into(), args: vec![var("dcap"), p()] }, c2),
        // unit-typed statement uses c1, value uses c2
        _ => blk(vec![Stmt::Let(Pat::Var("unused".into()), None, add(c1, i(1)))], add(c2, p())),
    }
}

/// test function for (shape, capture kind, flow); returns the FnDecls it needs plus the call expression for main
fn test(k: usize, shape: usize, cap: usize, flow: usize) -> Vec<FnDecl> {
    // capture kinds provide statements that bind c1 / c2 in the enclosing scope and the expressions used in the body
    let mut pre: Vec<Stmt> = Vec::new();
    let (c1, c2): (Expr, Expr) = match cap {
        0 => (var("a"), var("b")), // parameters of the enclosing function
        1 => {
            // both captured names are shadowed before the closure is created: the innermost binding is the one captured
            pre.push(let_("l1", add(var("a"), i(1))));
            pre.push(let_("l2", bin(BinOp::Mul, var("b"), i(2))));
            pre.push(let_("l1", add(bin(BinOp::Mul, var("l1"), i(3)), i(100))));
            pre.push(let_("l2", add(var("l2"), i(50))));
            (var("l1"), var("l2"))
        }
        2 => {
            pre.push(Stmt::Let(Pat::Tuple(vec![Pat::Var("t1".into()), Pat::Var("t2".into())]), None, Expr::Tuple(vec![add(var("a"), i(2)), var("b")])));
            (var("t1"), var("t2"))
        }
        3 => (var("m1"), var("b")), // bound by a match arm wrapped around the closure use (handled below)
        4 => (var("op1"), var("b")), // outer closure's parameter (handled below)
        5 => {
            pre.push(let_("cell", bi("ref", vec![add(var("a"), i(3))])));
            pre.push(let_("snap", bi("ref_get", vec![var("cell")])));
            pre.push(discard(bi("ref_set", vec![var("cell"), i(999)])));
            (var("snap"), var("b"))
        }
        6 => {
            pre.push(let_("cell", bi("ref", vec![var("a")])));
            (bi("ref_get", vec![var("cell")]), var("b"))
        }
        _ => (Expr::Call { name: "incr".into(), targs: vec![], args: vec![var("a")] }, callv(var("fv"), vec![var("b")])),
    };
    if cap == 7 {
        pre.push(let_("fv", Expr::FnRef("dblr".into())));
    }
    // shape 13 needs a dyn value in the enclosing scope; where c1 is only bound around the use (capture kinds 3, 4)
    // the shape falls back to shape 0
    let shape = if shape == 13 && (cap == 3 || cap == 4) { 0 } else { shape };
    if shape == 13 {
        pre.push(let_("dsrc", Expr::StructLit { name: "Dw".into(), ty: Ty::Struct("Dw".into(), vec![]), fields: vec![("w".into(), c1.clone())] }));
        pre.push(Stmt::Let(Pat::Var("dcap".into()), Some(Ty::Dyn("Dv".into())), Expr::ToDyn("Dv".into(), Box::new(var("dsrc")))));
    }
    // every other test whose body does not mention the enclosing function's parameter `a` names the closure's
    // own parameter `a`: inside the body the name means the argument, not the enclosing binding
    let pname = if (shape + cap + flow) % 2 == 1 && cap != 0 && cap != 7 { "a" } else { "p" };
    let the_closure = clo(&[(pname, I32)], body(shape, c1, c2, pname));
    let name = format!("t{}", k);
    let mut fns = Vec::new();
    let show = |e: Expr| bi("string_println", vec![add(s(&format!("t{}=", k)), bi("int32_to_string", vec![e]))]);
    // the part that creates and uses the closure, given the closure expression
    let use_it = |clo_e: Expr, fns: &mut Vec<FnDecl>| -> Expr {
        match flow {
            0 => blk(vec![let_("f", clo_e)], add(callv(var("f"), vec![i(3)]), add(callv(var("f"), vec![i(0)]), callv(var("f"), vec![i(1)])))),
            1 => {
                // returned from a helper function taking the captured values as parameters: only for capture kind 0
                let _ = fns;
                blk(vec![let_("f", clo_e)], add(callv(var("f"), vec![i(2)]), callv(var("f"), vec![i(0)])))
            }
            2 => blk(
                vec![
                    let_("shared", bi("ref", vec![i(0)])),
                    let_("f", clo_e),
                    let_("bump", clo(&[("d", I32)], blk(vec![discard(bi("ref_set", vec![var("shared"), add(bi("ref_get", vec![var("shared")]), var("d"))]))], bi("ref_get", vec![var("shared")])))),
                    let_("r1", callv(var("bump"), vec![callv(var("f"), vec![i(1)])])),
                    let_("r2", callv(var("bump"), vec![callv(var("f"), vec![i(3)])])),
                ],
                add(bin(BinOp::Mul, var("r1"), i(1000)), var("r2")),
            ),
            3 => blk(vec![let_("f", clo_e), let_("g", clo(&[("q", I32)], add(callv(var("f"), vec![var("q")]), i(1))))], add(callv(var("g"), vec![i(2)]), callv(var("g"), vec![i(0)]))),
            4 => blk(
                vec![
                    let_("tot", bi("ref", vec![i(0)])),
                    let_("it", bi("ref", vec![i(0)])),
                    Stmt::Expr(Expr::While(
                        Box::new(bin(BinOp::Lt, bi("ref_get", vec![var("it")]), i(3))),
                        Box::new(Expr::Block(
                            vec![
                                let_("cur", bi("ref_get", vec![var("it")])),
                                let_("f", clo_e),
                                discard(bi("ref_set", vec![var("tot"), add(bi("ref_get", vec![var("tot")]), callv(var("f"), vec![var("cur")]))])),
                                discard(bi("ref_set", vec![var("it"), add(var("cur"), i(1))])),
                            ],
                            None,
                        )),
                    )),
                ],
                bi("ref_get", vec![var("tot")]),
            ),
            _ => blk(
                vec![let_("lvl1", clo(&[("x1", I32)], blk(vec![let_("lvl2", clo(&[("x2", I32)], blk(vec![let_("f", clo_e)], add(callv(var("f"), vec![var("x2")]), var("x1")))))], callv(var("lvl2"), vec![add(var("x1"), i(1))]))))],
                add(callv(var("lvl1"), vec![i(1)]), callv(var("lvl1"), vec![i(0)])),
            ),
        }
    };
    let used = use_it(the_closure.clone(), &mut fns);
    // wrap for capture kinds that need an enclosing binder
    let wrapped = match cap {
        3 => Expr::Match(Box::new(Expr::Tuple(vec![add(var("a"), i(4)), var("b")])), vec![(Pat::Tuple(vec![Pat::Var("m1".into()), Pat::Wild]), used)]),
        4 => blk(vec![let_("outer", clo(&[("op1", I32)], used))], add(callv(var("outer"), vec![add(var("a"), i(5))]), callv(var("outer"), vec![var("a")]))),
        _ => used,
    };
    let mut stmts = pre;
    stmts.push(let_("res", wrapped));
    let body_e = Expr::Block(stmts, Some(Box::new(show(var("res")))));
    if flow == 1 && cap == 0 {
        // mk<k>(a, b) returns the closure directly; the test function calls it
        // how the helper hands the closure out: directly, in a flat tuple, or nested in tuples (left / right)
        let fty = Ty::Func(vec![I32], Box::new(I32));
        let second = clo(&[("q", I32)], add(var("q"), var("b")));
        // the helper's name: plain, ending in `_`, containing `__`, or an inherent method (`Mkr<k>::make`)
        let mkname = match k % 4 {
            0 => format!("mk{}", k),
            1 => format!("mk{}_", k),
            2 => format!("mk__{}", k),
            _ => format!("METHOD:Mkr{}", k),
        };
        let mkr_ty = Ty::Struct(format!("Mkr{}", k), vec![]);
        let call_mk = if k % 4 == 3 {
            let recv = Expr::StructLit { name: format!("Mkr{}", k), ty: mkr_ty.clone(), fields: vec![("tag".into(), i(0))] };
            if shape % 2 == 0 {
                Expr::AssocCall { head: format!("Mkr{}", k), method: "make".into(), args: vec![recv, var("a"), var("b")] }
            } else {
                Expr::Block(vec![Stmt::Let(Pat::Var("mkr".into()), Some(mkr_ty.clone()), recv)], Some(Box::new(Expr::MethodCall { recv: Box::new(var("mkr")), method: "make".into(), args: vec![var("a"), var("b")] })))
            }
        } else {
            // the helper is called by name or through a let-bound function value (a closure that returns the helper's
            // closure is outside the clean lattice: closure values in function-typed positions; the result - a closure or a tuple / struct holding closures - must keep its type on
            // every route; added after a seeded change that typed calls through function values by the callee's name)
            match (k + flow + shape) % 2 {
                0 => Expr::Call { name: mkname.clone(), targs: vec![], args: vec![var("a"), var("b")] },
                _ => Expr::Block(vec![let_("mkv", Expr::FnRef(mkname.clone()))], Some(Box::new(callv(var("mkv"), vec![var("a"), var("b")])))),
            }
        };
        let pv = |n: &str| Pat::Var(n.into());
        let slot_ty = Ty::Struct(format!("Slot{}", k), vec![fty.clone()]);
        let hold_ty = Ty::Struct(format!("Hold{}", k), vec![]);
        let duo_ty = Ty::Struct(format!("Duo{}", k), vec![]);
        let (ret, result, bind, use_e): (Ty, Expr, Stmt, Expr) = match (shape + cap + flow + k) % 8 {
            // a struct with TWO function-typed fields, one holding a plain function value and one the closure (either
            // order, an int field between them); both are taken out by field access and called
            6 | 7 => {
                let closure_first = (shape + cap + flow + k) % 8 == 7;
                let (fa, fb) = if closure_first { (the_closure, Expr::FnRef("dblr".into())) } else { (Expr::FnRef("dblr".into()), the_closure) };
                let (ca, cb) = if closure_first { ("pre", "post") } else { ("post", "pre") };
                (
                    duo_ty.clone(),
                    Expr::StructLit { name: format!("Duo{}", k), ty: duo_ty.clone(), fields: vec![("pre".into(), fa), ("tag".into(), add(var("a"), i(1))), ("post".into(), fb)] },
                    Stmt::Let(Pat::Var("duo".into()), Some(duo_ty.clone()), call_mk),
                    blk(
                        vec![let_("f", Expr::Field(Box::new(var("duo")), ca.into())), let_("g", Expr::Field(Box::new(var("duo")), cb.into()))],
                        add(add(add(callv(var("f"), vec![i(2)]), callv(var("f"), vec![i(0)])), callv(var("g"), vec![i(5)])), Expr::Field(Box::new(var("duo")), "tag".into())),
                    ),
                )
            }
            // stored in the field of a generic struct instantiated at the function type, read back by field access
            4 => (
                slot_ty.clone(),
                Expr::StructLit { name: format!("Slot{}", k), ty: slot_ty.clone(), fields: vec![("value".into(), the_closure), ("extra".into(), add(var("a"), i(1)))] },
                Stmt::Let(Pat::Var("slot".into()), Some(slot_ty.clone()), call_mk),
                blk(vec![let_("f", Expr::Field(Box::new(var("slot")), "value".into()))], add(add(callv(var("f"), vec![i(2)]), callv(var("f"), vec![i(0)])), Expr::Field(Box::new(var("slot")), "extra".into()))),
            ),
            // stored in a field of a non-generic struct, taken out by a struct pattern
            5 => (
                hold_ty.clone(),
                Expr::StructLit { name: format!("Hold{}", k), ty: hold_ty.clone(), fields: vec![("h".into(), the_closure), ("n".into(), add(var("a"), i(1)))] },
                Stmt::Let(Pat::Struct { name: format!("Hold{}", k), fields: vec![("h".into(), pv("f")), ("n".into(), pv("n"))] }, None, call_mk),
                add(add(callv(var("f"), vec![i(2)]), callv(var("f"), vec![i(0)])), var("n")),
            ),
            0 => (fty.clone(), the_closure, let_("f", call_mk), add(callv(var("f"), vec![i(2)]), callv(var("f"), vec![i(0)]))),
            1 => (
                Ty::Tuple(vec![fty.clone(), I32]),
                Expr::Tuple(vec![the_closure, add(var("a"), i(1))]),
                Stmt::Let(Pat::Tuple(vec![pv("f"), pv("n")]), None, call_mk),
                add(add(callv(var("f"), vec![i(2)]), callv(var("f"), vec![i(0)])), var("n")),
            ),
            2 => (
                Ty::Tuple(vec![Ty::Tuple(vec![fty.clone(), fty.clone()]), I32]),
                Expr::Tuple(vec![Expr::Tuple(vec![the_closure, second]), add(var("a"), i(1))]),
                Stmt::Let(Pat::Tuple(vec![Pat::Tuple(vec![pv("f"), pv("g")]), pv("n")]), None, call_mk),
                add(add(callv(var("f"), vec![i(2)]), callv(var("g"), vec![i(5)])), var("n")),
            ),
            _ => (
                Ty::Tuple(vec![I32, Ty::Tuple(vec![fty.clone(), Ty::Tuple(vec![fty.clone(), I32])])]),
                Expr::Tuple(vec![add(var("a"), i(1)), Expr::Tuple(vec![second, Expr::Tuple(vec![the_closure, i(9)])])]),
                Stmt::Let(Pat::Tuple(vec![pv("n"), Pat::Tuple(vec![pv("g"), Pat::Tuple(vec![pv("f"), pv("m")])])]), None, call_mk),
                add(add(add(callv(var("f"), vec![i(2)]), callv(var("g"), vec![i(5)])), var("n")), var("m")),
            ),
        };
        let mut params: Vec<(String, Ty)> = vec![("a".into(), I32), ("b".into(), I32)];
        if k % 4 == 3 {
            params.insert(0, ("self".into(), mkr_ty.clone()));
        }
        fns.push(FnDecl { name: mkname, tparams: vec![], params, ret, body: Expr::Block(vec![], Some(Box::new(result))) });
        let b2 = blk(vec![bind, let_("res", use_e)], show(var("res")));
        fns.push(FnDecl { name, tparams: vec![], params: vec![("a".into(), I32), ("b".into(), I32)], ret: Ty::Unit, body: b2 });
    } else {
        fns.push(FnDecl { name, tparams: vec![], params: vec![("a".into(), I32), ("b".into(), I32)], ret: Ty::Unit, body: body_e });
    }
    fns
}

pub fn program(tests: &[(usize, usize, usize)]) -> Program {
    let mut prog = Program::default();
    prog.items.push(Item::Enum(EnumDecl { name: "Ev".into(), tparams: vec![], variants: vec![("V0".into(), vec![]), ("V2".into(), vec![I32, I32])], derives: vec![] }));
    // every test has its own holder types: a struct field that stores a closure takes that closure's type
    for k in 0..tests.len() {
        prog.items.push(Item::Struct(StructDecl { name: format!("Slot{}", k), tparams: vec!["T".into()], fields: vec![("value".into(), Ty::Param("T".into())), ("extra".into(), I32)], derives: vec![] }));
        prog.items.push(Item::Struct(StructDecl { name: format!("Hold{}", k), tparams: vec![], fields: vec![("h".into(), Ty::Func(vec![I32], Box::new(I32))), ("n".into(), I32)], derives: vec![] }));
        prog.items.push(Item::Struct(StructDecl { name: format!("Duo{}", k), tparams: vec![], fields: vec![("pre".into(), Ty::Func(vec![I32], Box::new(I32))), ("tag".into(), I32), ("post".into(), Ty::Func(vec![I32], Box::new(I32)))], derives: vec![] }));
    }
    prog.items.push(Item::Trait(TraitDecl { name: "Dv".into(), methods: vec![MethodSig { name: "val".into(), extra: vec![I32], ret: I32 }] }));
    prog.items.push(Item::Struct(StructDecl { name: "Dw".into(), tparams: vec![], fields: vec![("w".into(), I32)], derives: vec![] }));
    prog.items.push(Item::Impl(ImplDecl {
        trait_name: Some("Dv".into()),
        for_ty: Ty::Struct("Dw".into(), vec![]),
        tparams: vec![],
        methods: vec![FnDecl { name: "val".into(), tparams: vec![], params: vec![("self".into(), Ty::Struct("Dw".into(), vec![])), ("k".into(), I32)], ret: I32, body: blk(vec![], add(bin(BinOp::Mul, Expr::Field(Box::new(var("self")), "w".into()), i(3)), var("k"))) }],
    }));
    prog.items.push(Item::Fn(FnDecl { name: "incr".into(), tparams: vec![], params: vec![("v".into(), I32)], ret: I32, body: blk(vec![], add(var("v"), i(1))) }));
    prog.items.push(Item::Fn(FnDecl { name: "dblr".into(), tparams: vec![], params: vec![("v".into(), I32)], ret: I32, body: blk(vec![], bin(BinOp::Mul, var("v"), i(2))) }));
    let mut stmts = Vec::new();
    for (k, (sh, cp, fl)) in tests.iter().enumerate() {
        for mut f in test(k, *sh, *cp, *fl) {
            if let Some(ty_name) = f.name.strip_prefix("METHOD:").map(|x| x.to_string()) {
                // a helper that is an inherent method of its own struct
                f.name = "make".into();
                prog.items.push(Item::Struct(StructDecl { name: ty_name.clone(), tparams: vec![], fields: vec![("tag".into(), I32)], derives: vec![] }));
                prog.items.push(Item::Impl(ImplDecl { trait_name: None, for_ty: Ty::Struct(ty_name, vec![]), tparams: vec![], methods: vec![f] }));
            } else {
                prog.items.push(Item::Fn(f));
            }
        }
        stmts.push(discard(Expr::Call { name: format!("t{}", k), targs: vec![], args: vec![i(7 + k as i128 % 5), i(2 + k as i128 % 3)] }));
    }
    prog.items.push(Item::Fn(FnDecl { name: "main".into(), tparams: vec![], params: vec![], ret: Ty::Unit, body: Expr::Block(stmts, Some(Box::new(Expr::Unit))) }));
    prog
}

fn run(ctx: &mut Ctx) {
    let tier = ctx.tier;
    let seed = ctx.seed;
    if ctx.replay_input.is_some() {
        println!("replay: the replay file stores the full source and both outputs");
        return;
    }
    let opts = DiffOpts { prop: "C08", vet_is_violation: true, budget: 2_000_000, print: PrintOpts::default() };
    let mut all: Vec<(usize, usize, usize)> = Vec::new();
    for sh in 0..N_SHAPES {
        for cp in 0..N_CAPS {
            for fl in 0..N_FLOWS {
                all.push((sh, cp, fl));
            }
        }
    }
    if ctx.shard == 0 {
        ctx.add_stat("shape_capture_flow_cells", all.len() as u64);
    }
    // deterministic shuffle so that each program mixes shapes
    let mut rng0 = Rng::new(12345);
    rng0.shuffle(&mut all);
    for (bi_, chunk) in all.chunks(24).enumerate() {
        if !ctx.mine(bi_ as u64) {
            continue;
        }
        let prog = program(chunk);
        let label = format!("cells/{}", bi_);
        ctx.case(&label.clone(), |c| {
            match diff::run_diff(c, &prog, &label, &opts) {
                Outcome::Agree { .. } => {
                    c.count("programs_agree", 1);
                    c.count("tests", chunk.len() as u64);
                    for cell in chunk {
                        c.nontrivial(hash_str(&format!("{:?}", cell)));
                    }
                }
                Outcome::Rejected(st, msg) => c.violation(format!("C08:closure-program-rejected:{}", diff::msg_class(&msg)), format!("a well-typed closure program is rejected ({}): {}", st, util::truncate(&msg, 200)), json!({"label": label, "source": print_program(&prog, PrintOpts::default())})),
                Outcome::Inconclusive(r) => diff::inconclusive_unless_crash(c, "C08", &r, &label, &print_program(&prog, PrintOpts::default())),
                Outcome::Violation => {}
            }
            if bi_ < 2 {
                c.sample(json!({"workload":"cells","cells (shape,capture,flow)": chunk.iter().take(6).collect::<Vec<_>>()}));
            }
        });
    }
    // random closure-heavy programs
    let n = tier.pickn(120u64, 6_000u64) / ctx.nshards as u64 + 1;
    let opts2 = DiffOpts { prop: "C08", vet_is_violation: false, budget: 400_000, print: PrintOpts::default() };
    for j in 0..n {
        let mut rng = Rng::keyed(seed, "c08-gen", ctx.shard as u64, j);
        let mut f = Features::base();
        f.n_fns = 4;
        f.generic_fns = false;
        f.traits = false;
        f.ident_mode = if rng.bool() { 1 } else { 0 };
        let (prog, _) = generate(&mut rng, f);
        let label = format!("gen/{}/{}", ctx.shard, j);
        ctx.case(&label.clone(), |c| match diff::run_diff(c, &prog, &label, &opts2) {
            Outcome::Agree { .. } => {
                c.count("tests", 1);
                c.count("random_programs_agree", 1);
            }
            Outcome::Inconclusive(r) => c.inconclusive(diff::msg_class(&r)),
            _ => {}
        });
    }
    crate::capi::cleanup_scratch();
}
