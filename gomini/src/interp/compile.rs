//! Lowering of the checked AST to bytecode.

use super::code::*;
use crate::ast::*;
use crate::consts::ConstVal;
use crate::types::*;
use crate::vet::{Builtin, Info, PkgFn, Res, SelKind};
use std::collections::HashMap;
use std::rc::Rc;

type CResult<T> = Result<T, String>;

struct LoopCtx {
    is_loop: bool,
    breaks: Vec<usize>,
    continues: Vec<usize>,
}

struct Comp<'a> {
    file: &'a File,
    info: &'a Info,
    prog: Program,
    code: Vec<Ins>,
    ctx: Vec<LoopCtx>,
    result_ty: Option<TypeId>,
    zero_cache: HashMap<TypeId, u32>,
    string_cache: HashMap<String, u32>,
}

pub fn compile(file: &File, info: &Info) -> CResult<Program> {
    let mut c = Comp {
        file,
        info,
        prog: Program { funcs: Vec::new(), consts: Vec::new(), paths: Vec::new(), strings: Vec::new(), print_kinds: Vec::new(), globals: Vec::new(), main: NIL_IDX, inits: Vec::new() },
        code: Vec::new(),
        ctx: Vec::new(),
        result_ty: None,
        zero_cache: HashMap::new(),
        string_cache: HashMap::new(),
    };
    c.run()?;
    Ok(c.prog)
}

fn strip(e: &Expr) -> &Expr {
    let mut cur = e;
    while let ExprKind::Paren(i) = &cur.kind {
        cur = i;
    }
    cur
}

fn side_effect_free(e: &Expr) -> bool {
    match &e.kind {
        ExprKind::Ident(_) | ExprKind::IntLit(_) | ExprKind::FloatLit(_) | ExprKind::RuneLit(_) | ExprKind::StrLit(_) => true,
        ExprKind::Paren(x) | ExprKind::Star(x) => side_effect_free(x),
        ExprKind::Unary { x, .. } => side_effect_free(x),
        ExprKind::Selector { x, .. } => side_effect_free(x),
        ExprKind::Index { x, index } => side_effect_free(x) && side_effect_free(index),
        ExprKind::Binary { x, y, .. } => side_effect_free(x) && side_effect_free(y),
        _ => false,
    }
}

impl<'a> Comp<'a> {
    fn tt(&self) -> &TypeTable {
        &self.info.types
    }

    fn emit(&mut self, i: Ins) -> usize {
        self.code.push(i);
        self.code.len() - 1
    }

    fn here(&self) -> u32 {
        self.code.len() as u32
    }

    fn patch(&mut self, at: usize, target: u32) {
        match &mut self.code[at] {
            Ins::Jump(t) | Ins::JumpIfFalse(t) | Ins::JumpIfTrue(t) | Ins::LoopBack(t) => *t = target,
            _ => {}
        }
    }

    fn string_idx(&mut self, s: &str) -> u32 {
        if let Some(&i) = self.string_cache.get(s) {
            return i;
        }
        let i = self.prog.strings.len() as u32;
        self.prog.strings.push(s.to_string());
        self.string_cache.insert(s.to_string(), i);
        i
    }

    fn unsupported(&mut self, what: &str) {
        let i = self.string_idx(what);
        self.emit(Ins::Unsupported(i));
    }

    fn add_const(&mut self, v: Value) -> u32 {
        self.prog.consts.push(v);
        (self.prog.consts.len() - 1) as u32
    }

    fn ety(&self, e: &Expr) -> TypeId {
        self.info.expr_ty.get(e.id as usize).copied().unwrap_or(T_INVALID)
    }

    fn zero_value(&self, t: TypeId, depth: u32) -> CResult<Value> {
        if depth > 64 {
            return Err("type nesting too deep".into());
        }
        Ok(match self.tt().under(t) {
            Ty::Bool => Value::Bool(false),
            Ty::Int(_) => Value::Int(0),
            Ty::F32 => Value::F32(0.0),
            Ty::F64 => Value::F64(0.0),
            Ty::Str => Value::Str(Rc::from(Vec::new())),
            Ty::Pointer(_) => Value::Ptr(NIL_IDX),
            Ty::Slice(_) => Value::Slice { arr: NIL_IDX, off: 0, len: 0, cap: 0 },
            Ty::Func(..) => Value::Func(NIL_IDX),
            Ty::Interface(_) => Value::NilIface,
            Ty::Struct(fs) => {
                let mut v = Vec::with_capacity(fs.len());
                for (_, ft) in fs {
                    v.push(self.zero_value(*ft, depth + 1)?);
                }
                Value::Tuple(Rc::new(v))
            }
            Ty::Array(n, el) => {
                if *n > 1_000_000 {
                    return Err("very large array value".into());
                }
                let z = self.zero_value(*el, depth + 1)?;
                Value::Tuple(Rc::new(vec![z; *n as usize]))
            }
            other => return Err(format!("value of type {:?}", other)),
        })
    }

    fn zero_const(&mut self, t: TypeId) -> CResult<u32> {
        if let Some(&i) = self.zero_cache.get(&t) {
            return Ok(i);
        }
        let v = self.zero_value(t, 0)?;
        let i = self.add_const(v);
        self.zero_cache.insert(t, i);
        Ok(i)
    }

    fn const_value(&self, v: &ConstVal, t: TypeId) -> CResult<Value> {
        Ok(match (self.tt().under(t), v) {
            (Ty::Bool, ConstVal::Bool(b)) => Value::Bool(*b),
            (Ty::Int(k), ConstVal::Int(i)) => Value::Int(k.wrap(i.low_u64_twos() as i64)),
            (Ty::F32, c) => Value::F32(c.to_rat().ok_or("bad float constant")?.to_f32() as f32),
            (Ty::F64, c) => Value::F64(c.to_rat().ok_or("bad float constant")?.to_f64()),
            (Ty::Str, ConstVal::Str(s)) => Value::Str(Rc::from(s.clone())),
            (ty, c) => return Err(format!("internal: constant {:?} of type {:?}", c, ty)),
        })
    }

    fn numk(&self, t: TypeId) -> CResult<NumK> {
        Ok(match self.tt().under(t) {
            Ty::Int(k) => NumK::Int(*k),
            Ty::F32 => NumK::F32,
            Ty::F64 => NumK::F64,
            Ty::Str => NumK::Str,
            other => return Err(format!("internal: numeric kind of {:?}", other)),
        })
    }

    fn is_unsigned(&self, t: TypeId) -> bool {
        self.tt().is_unsigned(t)
    }

    fn elem_info(&mut self, el: TypeId) -> CResult<ElemInfo> {
        let (size, _) = self.tt().size_align(el).ok_or("element size unknown")?;
        let zero = self.zero_const(el)?;
        Ok(ElemInfo { size, has_pointers: self.tt().has_pointers(el), zero })
    }

    // ------------------------------------------------------------ program

    fn run(&mut self) -> CResult<()> {
        // globals
        for g in &self.info.globals {
            let v = match (&g.init, g.ty) {
                (_, T_INVALID) => Value::Undef,
                (Some(c), t) => self.const_value(c, t)?,
                (None, t) => self.zero_value(t, 0)?,
            };
            self.prog.globals.push(v);
        }
        for fi in self.info.funcs.iter() {
            let decl = match &self.file.decls[fi.decl] {
                Decl::Func(f) => f,
                _ => return Err("internal: function table".into()),
            };
            let ref_kind = if fi.recv.is_some() {
                RefKind::None
            } else if fi.name.starts_with("ref_get__") {
                RefKind::Get
            } else if fi.name.starts_with("ref_set__") {
                RefKind::Set
            } else if fi.name.starts_with("ref__") {
                RefKind::New
            } else {
                RefKind::None
            };
            self.code = Vec::new();
            self.ctx.clear();
            self.result_ty = match self.tt().get(fi.sig) {
                Ty::Func(_, rs) if rs.len() == 1 => Some(rs[0]),
                _ => None,
            };
            match &decl.body {
                Some(b) => {
                    if fi.sig == T_INVALID {
                        self.unsupported("function with invalid signature");
                    } else {
                        self.block_stmts(&b.stmts)?;
                        self.emit(Ins::Step(decl.end_line));
                        if fi.has_result {
                            // unreachable in checked programs (missing return)
                            self.unsupported("fell off the end of a function with a result");
                        } else {
                            self.emit(Ins::Return(false));
                        }
                    }
                }
                None => self.unsupported("function without body"),
            }
            let code = std::mem::take(&mut self.code);
            self.prog.funcs.push(FuncCode {
                name: fi.name.clone(),
                qual_name: fi.qual_name.clone(),
                code,
                nparams: fi.nparams,
                nlocals: fi.nlocals.max(fi.nparams),
                has_result: fi.has_result,
                ref_kind,
                line: fi.line,
            });
        }
        self.prog.main = self.info.main_func.ok_or("no main function")?;
        self.prog.inits = self.info.init_funcs.clone();
        Ok(())
    }

    // --------------------------------------------------------- statements

    fn block_stmts(&mut self, stmts: &[Stmt]) -> CResult<()> {
        for s in stmts {
            self.stmt(s)?;
        }
        Ok(())
    }

    fn var_type_of_decl(&self, spec: &VarSpec, i: usize) -> TypeId {
        match &spec.ty {
            Some(te) => self.info.type_exprs.get(&te.id).copied().unwrap_or(T_INVALID),
            None => spec.values.get(i).map(|v| self.ety(v)).unwrap_or(T_INVALID),
        }
    }

    fn stmt(&mut self, s: &Stmt) -> CResult<()> {
        if !matches!(s.kind, StmtKind::Empty | StmtKind::Block(_)) {
            self.emit(Ins::Step(s.line));
        }
        match &s.kind {
            StmtKind::Empty => {}
            StmtKind::Var(spec) => {
                if spec.values.is_empty() {
                    let t = self.var_type_of_decl(spec, 0);
                    for n in &spec.names {
                        let slot = *self.info.decl_slots.get(&n.id).ok_or("internal: var slot")?;
                        let z = self.zero_const(t)?;
                        self.emit(Ins::Const(z));
                        self.emit(Ins::StoreLocal(slot));
                    }
                } else {
                    if spec.values.len() != spec.names.len() {
                        return Err("internal: var arity".into());
                    }
                    for (i, v) in spec.values.iter().enumerate() {
                        let t = self.var_type_of_decl(spec, i);
                        self.expr_conv(v, t)?;
                    }
                    for n in spec.names.iter().rev() {
                        let slot = *self.info.decl_slots.get(&n.id).ok_or("internal: var slot")?;
                        self.emit(Ins::StoreLocal(slot));
                    }
                }
            }
            StmtKind::ShortVar { names, values } => {
                if names.len() != values.len() {
                    return Err("internal: short var arity".into());
                }
                let mut targets: Vec<Option<Root>> = Vec::new();
                for (n, v) in names.iter().zip(values.iter()) {
                    if n.name == "_" {
                        self.expr(v)?;
                        targets.push(None);
                    } else if let Some(slot) = self.info.decl_slots.get(&n.id) {
                        // new variable: its type is the (defaulted) type of the value
                        self.expr(v)?;
                        targets.push(Some(Root::Local(*slot)));
                    } else {
                        let t = self.info.expr_ty.get(n.id as usize).copied().unwrap_or(T_INVALID);
                        self.expr_conv(v, t)?;
                        match self.info.res.get(&n.id) {
                            Some(Res::Local(s)) => targets.push(Some(Root::Local(*s))),
                            Some(Res::Global(g)) => targets.push(Some(Root::Global(*g))),
                            _ => return Err("internal: short var target".into()),
                        }
                    }
                }
                for t in targets.into_iter().rev() {
                    match t {
                        None => {
                            self.emit(Ins::Pop);
                        }
                        Some(Root::Local(s)) => {
                            self.emit(Ins::StoreLocal(s));
                        }
                        Some(Root::Global(g)) => {
                            self.emit(Ins::StoreGlobal(g));
                        }
                        _ => {}
                    }
                }
            }
            StmtKind::Assign { lhs, op, rhs } => {
                if lhs.len() != 1 || rhs.len() != 1 {
                    self.unsupported("parallel assignment");
                    return Ok(());
                }
                let l = &lhs[0];
                let r = &rhs[0];
                match op {
                    None => self.assign(l, AssignSrc::Expr(r))?,
                    Some(op) => {
                        if !side_effect_free(l) {
                            self.unsupported("assignment operation on an operand with side effects");
                            return Ok(());
                        }
                        let rt = self.info.expr_ty.get(s.id as usize).copied().unwrap_or(T_INVALID);
                        self.assign(l, AssignSrc::OpAssign { op: *op, rhs: r, result_ty: rt })?;
                    }
                }
            }
            StmtKind::IncDec { x, inc } => {
                if !side_effect_free(x) {
                    self.unsupported("++/-- on an operand with side effects");
                    return Ok(());
                }
                self.assign(x, AssignSrc::IncDec { inc: *inc })?;
            }
            StmtKind::Expr(e) => {
                let pushes = self.expr_maybe_novalue(e)?;
                if pushes {
                    self.emit(Ins::Pop);
                }
            }
            StmtKind::Go(e) => self.go_stmt(e)?,
            StmtKind::Return(vals) => {
                if vals.is_empty() {
                    self.emit(Ins::Return(false));
                } else if vals.len() == 1 {
                    let rt = self.result_ty.ok_or("internal: return type")?;
                    self.expr_conv(&vals[0], rt)?;
                    self.emit(Ins::Return(true));
                } else {
                    self.unsupported("multiple return values");
                }
            }
            StmtKind::If { init, cond, then, els } => {
                if let Some(i) = init {
                    self.stmt(i)?;
                }
                self.expr(cond)?;
                let jf = self.emit(Ins::JumpIfFalse(0));
                self.block_stmts(&then.stmts)?;
                match els {
                    Some(e) => {
                        let jend = self.emit(Ins::Jump(0));
                        let l = self.here();
                        self.patch(jf, l);
                        self.stmt(e)?;
                        let l = self.here();
                        self.patch(jend, l);
                    }
                    None => {
                        let l = self.here();
                        self.patch(jf, l);
                    }
                }
            }
            StmtKind::For { init, cond, post, body } => {
                if let Some(i) = init {
                    self.stmt(i)?;
                }
                let lcond = self.here();
                let mut jf = None;
                if let Some(c) = cond {
                    self.emit(Ins::Step(c.line));
                    self.expr(c)?;
                    jf = Some(self.emit(Ins::JumpIfFalse(0)));
                }
                self.ctx.push(LoopCtx { is_loop: true, breaks: Vec::new(), continues: Vec::new() });
                self.block_stmts(&body.stmts)?;
                let ctx = self.ctx.pop().unwrap();
                let lpost = self.here();
                for c in ctx.continues {
                    self.patch(c, lpost);
                }
                if let Some(p) = post {
                    self.stmt(p)?;
                }
                self.emit(Ins::LoopBack(lcond));
                let lend = self.here();
                if let Some(j) = jf {
                    self.patch(j, lend);
                }
                for b in ctx.breaks {
                    self.patch(b, lend);
                }
            }
            StmtKind::Switch { init, tag, clauses } => self.switch_stmt(s, init, tag, clauses)?,
            StmtKind::TypeSwitch { init, bind, x, clauses } => self.type_switch_stmt(s, init, bind, x, clauses)?,
            StmtKind::Break => {
                let j = self.emit(Ins::Jump(0));
                match self.ctx.last_mut() {
                    Some(c) => c.breaks.push(j),
                    None => return Err("internal: break outside loop".into()),
                }
            }
            StmtKind::Continue => {
                let j = self.emit(Ins::Jump(0));
                match self.ctx.iter_mut().rev().find(|c| c.is_loop) {
                    Some(c) => c.continues.push(j),
                    None => return Err("internal: continue outside loop".into()),
                }
            }
            StmtKind::Block(b) => self.block_stmts(&b.stmts)?,
        }
        Ok(())
    }

    fn switch_stmt(&mut self, s: &Stmt, init: &Option<Box<Stmt>>, tag: &Option<Expr>, clauses: &[CaseClause]) -> CResult<()> {
        if let Some(i) = init {
            self.stmt(i)?;
        }
        let slot = *self.info.stmt_slots.get(&s.id).ok_or("internal: switch slot")?;
        let tag_ty = match tag {
            Some(t) => {
                self.expr(t)?;
                self.emit(Ins::StoreLocal(slot));
                Some(self.ety(t))
            }
            None => None,
        };
        // tests
        let mut body_jumps: Vec<Vec<usize>> = Vec::new();
        let mut default_idx = None;
        for (ci, c) in clauses.iter().enumerate() {
            let mut js = Vec::new();
            match &c.exprs {
                None => default_idx = Some(ci),
                Some(es) => {
                    for ce in es {
                        match tag_ty {
                            Some(tt) => {
                                self.emit(Ins::LoadLocal(slot));
                                let ct = self.ety(ce);
                                let tag_if = self.tt().is_interface(tt);
                                let case_if = self.tt().is_interface(ct);
                                if tag_if && !case_if {
                                    self.expr(ce)?;
                                    self.emit(Ins::ToIface(ct));
                                    self.emit(Ins::Cmp(BinOp::Eq, CmpK::Deep));
                                } else if !tag_if && case_if {
                                    self.emit(Ins::ToIface(tt));
                                    self.expr(ce)?;
                                    self.emit(Ins::Cmp(BinOp::Eq, CmpK::Deep));
                                } else {
                                    self.expr(ce)?;
                                    let k = self.cmp_kind(tt);
                                    self.emit(Ins::Cmp(BinOp::Eq, k));
                                }
                            }
                            None => {
                                self.expr(ce)?;
                            }
                        }
                        js.push(self.emit(Ins::JumpIfTrue(0)));
                    }
                }
            }
            body_jumps.push(js);
        }
        let jdefault = self.emit(Ins::Jump(0));
        self.ctx.push(LoopCtx { is_loop: false, breaks: Vec::new(), continues: Vec::new() });
        let mut end_jumps = Vec::new();
        let mut default_target = None;
        for (ci, c) in clauses.iter().enumerate() {
            let l = self.here();
            for j in &body_jumps[ci] {
                self.patch(*j, l);
            }
            if default_idx == Some(ci) {
                default_target = Some(l);
            }
            self.block_stmts(&c.body)?;
            end_jumps.push(self.emit(Ins::Jump(0)));
        }
        let lend = self.here();
        self.patch(jdefault, default_target.unwrap_or(lend));
        let ctx = self.ctx.pop().unwrap();
        for j in end_jumps.into_iter().chain(ctx.breaks.into_iter()) {
            self.patch(j, lend);
        }
        // continues inside a switch belong to the enclosing loop
        if !ctx.continues.is_empty() {
            return Err("internal: continue recorded on switch".into());
        }
        Ok(())
    }

    fn type_switch_stmt(&mut self, s: &Stmt, init: &Option<Box<Stmt>>, bind: &Option<Ident>, x: &Expr, clauses: &[TypeClause]) -> CResult<()> {
        if let Some(i) = init {
            self.stmt(i)?;
        }
        let slot = *self.info.stmt_slots.get(&s.id).ok_or("internal: type switch slot")?;
        self.expr(x)?;
        self.emit(Ins::StoreLocal(slot));
        let mut body_jumps: Vec<Vec<usize>> = Vec::new();
        let mut default_idx = None;
        for (ci, c) in clauses.iter().enumerate() {
            let mut js = Vec::new();
            match &c.types {
                None => default_idx = Some(ci),
                Some(ts) => {
                    for tc in ts {
                        self.emit(Ins::LoadLocal(slot));
                        match tc {
                            TypeCase::Nil(_) => {
                                self.emit(Ins::TypeTest { target: NIL_IDX, target_iface: false });
                            }
                            TypeCase::Type(te) => {
                                let t = *self.info.type_exprs.get(&te.id).ok_or("internal: case type")?;
                                let ti = self.tt().is_interface(t);
                                self.emit(Ins::TypeTest { target: t, target_iface: ti });
                            }
                        }
                        js.push(self.emit(Ins::JumpIfTrue(0)));
                    }
                }
            }
            body_jumps.push(js);
        }
        let jdefault = self.emit(Ins::Jump(0));
        self.ctx.push(LoopCtx { is_loop: false, breaks: Vec::new(), continues: Vec::new() });
        let mut end_jumps = Vec::new();
        let mut default_target = None;
        for (ci, c) in clauses.iter().enumerate() {
            let l = self.here();
            for j in &body_jumps[ci] {
                self.patch(*j, l);
            }
            if default_idx == Some(ci) {
                default_target = Some(l);
            }
            if bind.is_some() {
                if let Some((bslot, bty)) = self.info.clause_bind.get(&c.id).copied() {
                    self.emit(Ins::LoadLocal(slot));
                    if !self.tt().is_interface(bty) {
                        self.emit(Ins::Unwrap);
                    }
                    self.emit(Ins::StoreLocal(bslot));
                }
            }
            self.block_stmts(&c.body)?;
            end_jumps.push(self.emit(Ins::Jump(0)));
        }
        let lend = self.here();
        self.patch(jdefault, default_target.unwrap_or(lend));
        let ctx = self.ctx.pop().unwrap();
        for j in end_jumps.into_iter().chain(ctx.breaks.into_iter()) {
            self.patch(j, lend);
        }
        Ok(())
    }

    fn go_stmt(&mut self, e: &Expr) -> CResult<()> {
        let inner = strip(e);
        let (fun, args) = match &inner.kind {
            ExprKind::Call { fun, args } => (fun, args),
            _ => return Err("internal: go without call".into()),
        };
        let f = strip(fun);
        if self.info.type_exprs.contains_key(&f.id) || matches!(self.info.res.get(&f.id), Some(Res::Builtin(_))) {
            self.unsupported("go statement with builtin or conversion");
            return Ok(());
        }
        match self.info.sels.get(&f.id) {
            Some(SelKind::PkgFunc(_)) => {
                self.unsupported("go statement with package function");
                return Ok(());
            }
            Some(SelKind::IfaceMethod { .. }) => {
                self.unsupported("go statement with interface method");
                return Ok(());
            }
            Some(SelKind::Method { func, deref }) => {
                let (func, deref) = (*func, *deref);
                if let ExprKind::Selector { x, .. } = &f.kind {
                    self.expr(x)?;
                    if deref {
                        self.emit(Ins::Deref);
                    }
                }
                let ptys = self.param_types(self.info.funcs[func as usize].sig)?;
                self.args(args, &ptys)?;
                self.emit(Ins::Line(e.line));
                self.emit(Ins::Go { func, nargs: args.len() as u32 + 1 });
                return Ok(());
            }
            _ => {}
        }
        let fty = self.ety(f);
        let ptys = self.param_types(fty)?;
        if let Some(Res::Func(idx)) = self.info.res.get(&f.id) {
            let idx = *idx;
            self.args(args, &ptys)?;
            self.emit(Ins::Line(e.line));
            self.emit(Ins::Go { func: idx, nargs: args.len() as u32 });
        } else {
            self.expr(f)?;
            self.args(args, &ptys)?;
            self.emit(Ins::Line(e.line));
            self.emit(Ins::GoValue { nargs: args.len() as u32 });
        }
        Ok(())
    }

    // -------------------------------------------------------- assignment

    fn assign(&mut self, l: &Expr, src: AssignSrc) -> CResult<()> {
        let li = strip(l);
        if let ExprKind::Ident(n) = &li.kind {
            if n == "_" {
                match src {
                    AssignSrc::Expr(r) => {
                        self.expr(r)?;
                        self.emit(Ins::Pop);
                    }
                    _ => return Err("internal: op-assign to blank".into()),
                }
                return Ok(());
            }
        }
        let lt = self.ety(li);
        let mut steps: Vec<Step> = Vec::new();
        let mut root_unsigned = false;
        let root = self.lvalue(li, &mut steps, &mut root_unsigned)?;
        let root = match root {
            Some(r) => r,
            None => return Ok(()), // an Unsupported instruction was emitted
        };
        match src {
            AssignSrc::Expr(r) => self.expr_conv(r, lt)?,
            AssignSrc::OpAssign { op, rhs, result_ty } => {
                self.expr(li)?;
                self.binary_tail(op, li, rhs, result_ty)?;
                // the result of `x op y` has x's type except for shifts where it is x's type too
                let _ = result_ty;
            }
            AssignSrc::IncDec { inc } => {
                self.expr(li)?;
                let k = self.numk(lt)?;
                let one = match k {
                    NumK::Int(_) => Value::Int(1),
                    NumK::F32 => Value::F32(1.0),
                    NumK::F64 => Value::F64(1.0),
                    NumK::Str => return Err("internal: ++ on string".into()),
                };
                let c = self.add_const(one);
                self.emit(Ins::Const(c));
                self.emit(Ins::Bin(if inc { BinOp::Add } else { BinOp::Sub }, k));
            }
        }
        match (root, steps.is_empty()) {
            (Root::Local(s), true) => {
                self.emit(Ins::StoreLocal(s));
            }
            (Root::Global(g), true) => {
                self.emit(Ins::StoreGlobal(g));
            }
            _ => {
                let p = StorePath { root, root_index_unsigned: root_unsigned, steps, line: l.line };
                self.prog.paths.push(p);
                let idx = (self.prog.paths.len() - 1) as u32;
                self.emit(Ins::Store(idx));
            }
        }
        Ok(())
    }

    /// Emits the operands of the lvalue (pointer / slice / indices, left to
    /// right) and returns its root; `steps` receives the path from the root.
    fn lvalue(&mut self, e: &Expr, steps: &mut Vec<Step>, root_unsigned: &mut bool) -> CResult<Option<Root>> {
        let e = strip(e);
        match &e.kind {
            ExprKind::Ident(_) => match self.info.res.get(&e.id) {
                Some(Res::Local(s)) => Ok(Some(Root::Local(*s))),
                Some(Res::Global(g)) => Ok(Some(Root::Global(*g))),
                _ => Err("internal: assignment target".into()),
            },
            ExprKind::Star(x) => {
                self.expr(x)?;
                Ok(Some(Root::Ptr))
            }
            ExprKind::Selector { x, .. } => match self.info.sels.get(&e.id) {
                Some(SelKind::Field { index, deref }) => {
                    let (index, deref) = (*index, *deref);
                    if deref {
                        self.expr(x)?;
                        steps.push(Step::Field(index));
                        Ok(Some(Root::Ptr))
                    } else {
                        let r = self.lvalue(x, steps, root_unsigned)?;
                        steps.push(Step::Field(index));
                        Ok(r)
                    }
                }
                _ => Err("internal: selector assignment target".into()),
            },
            ExprKind::Index { x, index } => {
                let xt = self.ety(strip(x));
                let it = self.ety(index);
                match self.tt().under(xt).clone() {
                    Ty::Slice(_) => {
                        self.expr(x)?;
                        self.expr(index)?;
                        *root_unsigned = self.is_unsigned(it);
                        Ok(Some(Root::SliceElem))
                    }
                    Ty::Array(n, _) => {
                        let r = self.lvalue(x, steps, root_unsigned)?;
                        self.expr(index)?;
                        steps.push(Step::ArrIndex { len: n.min(u32::MAX as u64) as u32, unsigned: self.is_unsigned(it) });
                        Ok(r)
                    }
                    _ => Err("internal: index assignment target".into()),
                }
            }
            _ => Err("internal: assignment target kind".into()),
        }
    }

    // -------------------------------------------------------- expressions

    /// Compiles `e` and converts the value to interface type when `target`
    /// is an interface and the expression is not.
    fn expr_conv(&mut self, e: &Expr, target: TypeId) -> CResult<()> {
        self.expr(e)?;
        let et = self.ety(e);
        if target != T_INVALID && self.tt().is_interface(target) && !self.tt().is_interface(et) {
            if et == T_INVALID || self.tt().is_untyped(et) {
                return Err("internal: untyped value converted to interface".into());
            }
            self.emit(Ins::ToIface(et));
        }
        Ok(())
    }

    fn cmp_kind(&self, t: TypeId) -> CmpK {
        match self.tt().under(t) {
            Ty::Int(k) => {
                if k.signed() {
                    CmpK::Signed
                } else {
                    CmpK::Unsigned
                }
            }
            Ty::F32 => CmpK::F32,
            Ty::F64 => CmpK::F64,
            Ty::Str => CmpK::Str,
            Ty::Bool => CmpK::Bool,
            _ => CmpK::Deep,
        }
    }

    fn param_types(&self, fty: TypeId) -> CResult<Vec<TypeId>> {
        match self.tt().under(fty) {
            Ty::Func(ps, _) => Ok(ps.clone()),
            _ => Err("internal: callee is not a function".into()),
        }
    }

    fn args(&mut self, args: &[Expr], ptys: &[TypeId]) -> CResult<()> {
        if args.len() != ptys.len() {
            return Err("internal: argument count".into());
        }
        for (a, p) in args.iter().zip(ptys.iter()) {
            self.expr_conv(a, *p)?;
        }
        Ok(())
    }

    /// Compiles an expression statement's expression; returns whether a
    /// value was pushed.
    fn expr_maybe_novalue(&mut self, e: &Expr) -> CResult<bool> {
        let inner = strip(e);
        if let ExprKind::Call { fun, args } = &inner.kind {
            return self.call(inner, fun, args);
        }
        self.expr(e)?;
        Ok(true)
    }

    fn expr(&mut self, e: &Expr) -> CResult<()> {
        // constants (including converted untyped constants)
        if let Some(c) = self.info.consts.get(&e.id) {
            let t = self.ety(e);
            if t == T_INVALID || self.tt().is_untyped(t) {
                return Err(format!("internal: constant at line {} has no final type", e.line));
            }
            let v = self.const_value(c, t)?;
            let i = self.add_const(v);
            self.emit(Ins::Const(i));
            return Ok(());
        }
        match &e.kind {
            ExprKind::Paren(x) => self.expr(x),
            ExprKind::Ident(_) => {
                match self.info.res.get(&e.id) {
                    Some(Res::Local(s)) => {
                        self.emit(Ins::LoadLocal(*s));
                    }
                    Some(Res::Global(g)) => {
                        self.emit(Ins::LoadGlobal(*g));
                    }
                    Some(Res::Func(f)) => {
                        let c = self.add_const(Value::Func(*f));
                        self.emit(Ins::Const(c));
                    }
                    Some(Res::Nil) => {
                        let t = self.ety(e);
                        if t == T_INVALID || self.tt().is_untyped(t) {
                            return Err("internal: nil without a type".into());
                        }
                        let z = self.zero_const(t)?;
                        self.emit(Ins::Const(z));
                    }
                    other => return Err(format!("internal: identifier resolution {:?} at line {}", other, e.line)),
                }
                Ok(())
            }
            ExprKind::IntLit(_) | ExprKind::FloatLit(_) | ExprKind::RuneLit(_) | ExprKind::StrLit(_) => {
                Err(format!("internal: literal without constant value at line {}", e.line))
            }
            ExprKind::Unary { op, x } => {
                match op {
                    UnOp::Addr => {
                        if let ExprKind::Composite { .. } = &strip(x).kind {
                            self.expr(x)?;
                            self.emit(Ins::NewCell);
                        } else {
                            self.unsupported("address of a variable (&x)");
                        }
                    }
                    UnOp::Pos => self.expr(x)?,
                    UnOp::Neg => {
                        self.expr(x)?;
                        let k = self.numk(self.ety(e))?;
                        self.emit(Ins::Neg(k));
                    }
                    UnOp::Not => {
                        self.expr(x)?;
                        self.emit(Ins::Not);
                    }
                    UnOp::BitNot => {
                        self.expr(x)?;
                        match self.numk(self.ety(e))? {
                            NumK::Int(k) => {
                                self.emit(Ins::BitNot(k));
                            }
                            _ => return Err("internal: ^ on non-integer".into()),
                        }
                    }
                }
                Ok(())
            }
            ExprKind::Star(x) => {
                self.expr(x)?;
                self.emit(Ins::Line(e.line));
                self.emit(Ins::Deref);
                Ok(())
            }
            ExprKind::Binary { op, x, y } => {
                match op {
                    BinOp::LAnd | BinOp::LOr => {
                        self.expr(x)?;
                        let j = if *op == BinOp::LAnd { self.emit(Ins::JumpIfFalse(0)) } else { self.emit(Ins::JumpIfTrue(0)) };
                        self.expr(y)?;
                        let jend = self.emit(Ins::Jump(0));
                        let l = self.here();
                        self.patch(j, l);
                        let c = self.add_const(Value::Bool(*op == BinOp::LOr));
                        self.emit(Ins::Const(c));
                        let l = self.here();
                        self.patch(jend, l);
                        Ok(())
                    }
                    _ => {
                        self.expr(x)?;
                        self.binary_tail(*op, x, y, self.ety(e))
                    }
                }
            }
            ExprKind::Call { fun, args } => {
                let pushed = self.call(e, fun, args)?;
                if !pushed {
                    return Err(format!("internal: call without value used as value at line {}", e.line));
                }
                Ok(())
            }
            ExprKind::Selector { x, .. } => {
                match self.info.sels.get(&e.id) {
                    Some(SelKind::Field { index, deref }) => {
                        let (index, deref) = (*index, *deref);
                        self.expr(x)?;
                        if deref {
                            self.emit(Ins::Line(e.line));
                            self.emit(Ins::FieldPtr(index));
                        } else {
                            self.emit(Ins::Field(index));
                        }
                    }
                    Some(SelKind::Method { .. }) | Some(SelKind::IfaceMethod { .. }) => self.unsupported("method value"),
                    other => return Err(format!("internal: selector {:?} at line {}", other, e.line)),
                }
                Ok(())
            }
            ExprKind::Index { x, index } => {
                let xt = self.ety(strip(x));
                self.expr(x)?;
                self.expr(index)?;
                let unsigned = self.is_unsigned(self.ety(index));
                self.emit(Ins::Line(e.line));
                match self.tt().under(xt) {
                    Ty::Array(..) => self.emit(Ins::IndexArray { unsigned }),
                    Ty::Slice(_) => self.emit(Ins::IndexSlice { unsigned }),
                    Ty::Str => self.emit(Ins::IndexStr { unsigned }),
                    _ => return Err("internal: index base".into()),
                };
                Ok(())
            }
            ExprKind::TypeAssert { x, ty } => {
                self.expr(x)?;
                let t = *self.info.type_exprs.get(&ty.id).ok_or("internal: assert type")?;
                let src = self.ety(x);
                self.emit(Ins::Line(e.line));
                let ti = self.tt().is_interface(t);
                self.emit(Ins::Assert { target: t, target_iface: ti, src });
                Ok(())
            }
            ExprKind::Composite { elems, .. } => self.composite(e, elems),
            ExprKind::Type(_) | ExprKind::TypeSwitchGuard(_) => Err("internal: type in value position".into()),
        }
    }

    /// With the left operand already on the stack: compile the right
    /// operand and the operator.
    fn binary_tail(&mut self, op: BinOp, x: &Expr, y: &Expr, result_ty: TypeId) -> CResult<()> {
        let xt = self.ety(x);
        let yt = self.ety(y);
        if op.is_comparison() {
            let xi = self.tt().is_interface(xt);
            let yi = self.tt().is_interface(yt);
            if xi && !yi {
                self.expr(y)?;
                self.emit(Ins::ToIface(yt));
                self.emit(Ins::Line(x.line));
                self.emit(Ins::Cmp(op, CmpK::Deep));
            } else if !xi && yi {
                self.emit(Ins::ToIface(xt));
                self.expr(y)?;
                self.emit(Ins::Line(x.line));
                self.emit(Ins::Cmp(op, CmpK::Deep));
            } else {
                self.expr(y)?;
                let k = self.cmp_kind(xt);
                self.emit(Ins::Line(x.line));
                self.emit(Ins::Cmp(op, k));
            }
            return Ok(());
        }
        if matches!(op, BinOp::Shl | BinOp::Shr) {
            self.expr(y)?;
            let kind = match self.numk(result_ty)? {
                NumK::Int(k) => k,
                _ => return Err("internal: shift of non-integer".into()),
            };
            let count_signed = !self.is_unsigned(yt);
            self.emit(Ins::Line(x.line));
            self.emit(Ins::Shift { left: op == BinOp::Shl, kind, count_signed });
            return Ok(());
        }
        self.expr(y)?;
        let k = self.numk(result_ty)?;
        self.emit(Ins::Line(x.line));
        self.emit(Ins::Bin(op, k));
        Ok(())
    }

    fn composite(&mut self, e: &Expr, elems: &[KeyedElem]) -> CResult<()> {
        let t = self.ety(e);
        match self.tt().under(t).clone() {
            Ty::Struct(fs) => {
                let keyed = elems.iter().any(|el| el.key.is_some());
                if keyed {
                    let mut by_field: Vec<Option<&Expr>> = vec![None; fs.len()];
                    let mut last = -1i64;
                    let mut ordered = true;
                    for el in elems {
                        let k = el.key.as_ref().ok_or("internal: mixed literal")?;
                        let idx = match self.info.sels.get(&k.id) {
                            Some(SelKind::Field { index, .. }) => *index as usize,
                            _ => return Err("internal: literal key".into()),
                        };
                        if (idx as i64) < last {
                            ordered = false;
                        }
                        last = idx as i64;
                        by_field[idx] = Some(&el.value);
                    }
                    if !ordered && !elems.iter().all(|el| side_effect_free(&el.value)) {
                        self.unsupported("struct literal with out-of-order keys and side effects");
                        return Ok(());
                    }
                    for (i, (_, ft)) in fs.iter().enumerate() {
                        match by_field[i] {
                            Some(v) => self.expr_conv(v, *ft)?,
                            None => {
                                let z = self.zero_const(*ft)?;
                                self.emit(Ins::Const(z));
                            }
                        }
                    }
                } else if elems.is_empty() {
                    let z = self.zero_const(t)?;
                    self.emit(Ins::Const(z));
                    return Ok(());
                } else {
                    for (el, (_, ft)) in elems.iter().zip(fs.iter()) {
                        self.expr_conv(&el.value, *ft)?;
                    }
                }
                self.emit(Ins::MakeTuple(fs.len() as u32));
                Ok(())
            }
            Ty::Array(n, el) => {
                if n > 1_000_000 {
                    self.unsupported("very large array value");
                    return Ok(());
                }
                for e2 in elems {
                    self.expr_conv(&e2.value, el)?;
                }
                let z = self.zero_const(el)?;
                self.emit(Ins::MakeArray { n: elems.len() as u32, total: n as u32, zero: z });
                Ok(())
            }
            Ty::Slice(el) => {
                for e2 in elems {
                    self.expr_conv(&e2.value, el)?;
                }
                self.emit(Ins::MakeSliceLit { n: elems.len() as u32 });
                Ok(())
            }
            _ => Err("internal: composite literal type".into()),
        }
    }

    /// Compiles a call; returns whether it pushes a value.
    fn call(&mut self, e: &Expr, fun: &Expr, args: &[Expr]) -> CResult<bool> {
        let f = strip(fun);
        // conversion
        if let Some(&t) = self.info.type_exprs.get(&f.id) {
            if args.len() != 1 {
                return Err("internal: conversion arity".into());
            }
            self.conversion(e, t, &args[0])?;
            return Ok(true);
        }
        if let Some(Res::Builtin(b)) = self.info.res.get(&f.id) {
            return self.builtin(e, *b, args);
        }
        match self.info.sels.get(&f.id).cloned() {
            Some(SelKind::PkgFunc(pf)) => return self.pkg_call(e, pf, args),
            Some(SelKind::Method { func, deref }) => {
                if let ExprKind::Selector { x, .. } = &f.kind {
                    self.expr(x)?;
                    if deref {
                        self.emit(Ins::Line(e.line));
                        self.emit(Ins::Deref);
                    }
                }
                let ptys = self.param_types(self.info.funcs[func as usize].sig)?;
                self.args(args, &ptys)?;
                self.emit(Ins::Line(e.line));
                self.emit(Ins::Call { func, nargs: args.len() as u32 + 1 });
                return Ok(self.info.funcs[func as usize].has_result);
            }
            Some(SelKind::IfaceMethod { name }) => {
                let sig = self.ety(f);
                let (ptys, rs) = match self.tt().under(sig) {
                    Ty::Func(p, r) => (p.clone(), r.len()),
                    _ => return Err("internal: interface method signature".into()),
                };
                if let ExprKind::Selector { x, .. } = &f.kind {
                    self.expr(x)?;
                }
                self.args(args, &ptys)?;
                let ni = self.string_idx(&name);
                self.emit(Ins::Line(e.line));
                self.emit(Ins::CallIface { name: ni, nargs: args.len() as u32 });
                return Ok(rs > 0);
            }
            _ => {}
        }
        let fty = self.ety(f);
        let (ptys, nres) = match self.tt().under(fty) {
            Ty::Func(p, r) => (p.clone(), r.len()),
            _ => return Err(format!("internal: call of non-function at line {}", e.line)),
        };
        if nres > 1 {
            self.unsupported("function with multiple results");
            return Ok(true);
        }
        if let Some(Res::Func(idx)) = self.info.res.get(&f.id) {
            let idx = *idx;
            self.args(args, &ptys)?;
            self.emit(Ins::Line(e.line));
            self.emit(Ins::Call { func: idx, nargs: args.len() as u32 });
        } else {
            self.expr(f)?;
            self.args(args, &ptys)?;
            self.emit(Ins::Line(e.line));
            self.emit(Ins::CallValue { nargs: args.len() as u32 });
        }
        Ok(nres == 1)
    }

    fn conversion(&mut self, e: &Expr, t: TypeId, arg: &Expr) -> CResult<()> {
        let at = self.ety(arg);
        let tu = self.tt().under(t).clone();
        let au = self.tt().under(at).clone();
        if self.tt().is_interface(t) {
            return self.expr_conv(arg, t);
        }
        self.expr(arg)?;
        match (&au, &tu) {
            (Ty::Int(_) | Ty::F32 | Ty::F64, Ty::Int(_) | Ty::F32 | Ty::F64) => {
                let from = self.numk(at)?;
                let to = self.numk(t)?;
                if from != to {
                    self.emit(Ins::Line(e.line));
                    self.emit(Ins::Conv { from, to });
                }
            }
            (Ty::Int(k), Ty::Str) => {
                self.emit(Ins::IntToStr { unsigned: !k.signed() });
            }
            (Ty::Str, Ty::Slice(el)) if matches!(self.tt().under(*el), Ty::Int(k) if k.signed() && k.bits() == 32) => {
                self.emit(Ins::StrToRunes);
            }
            (Ty::Str, Ty::Slice(_)) | (Ty::Slice(_), Ty::Str) => {
                self.emit(Ins::Pop);
                self.unsupported("string <-> slice conversion");
            }
            (Ty::Slice(_), Ty::Array(..)) | (Ty::Slice(_), Ty::Pointer(_)) => {
                self.emit(Ins::Pop);
                self.unsupported("slice to array conversion");
            }
            _ => {
                // identical underlying types: representation unchanged
            }
        }
        Ok(())
    }

    fn builtin(&mut self, e: &Expr, b: Builtin, args: &[Expr]) -> CResult<bool> {
        match b {
            Builtin::Len | Builtin::Cap => {
                let a = args.first().ok_or("internal: len arity")?;
                let at = self.ety(a);
                self.expr(a)?;
                match (b, self.tt().under(at)) {
                    (Builtin::Len, Ty::Str) => self.emit(Ins::Len(0)),
                    (Builtin::Len, Ty::Slice(_)) => self.emit(Ins::Len(1)),
                    (Builtin::Len, Ty::Array(..)) | (Builtin::Cap, Ty::Array(..)) => self.emit(Ins::Len(2)),
                    (Builtin::Cap, Ty::Slice(_)) => self.emit(Ins::Cap),
                    _ => return Err("internal: len/cap operand".into()),
                };
                Ok(true)
            }
            Builtin::Append => {
                let s = args.first().ok_or("internal: append arity")?;
                let st = self.ety(s);
                let el = match self.tt().under(st) {
                    Ty::Slice(el) => *el,
                    _ => return Err("internal: append operand".into()),
                };
                self.expr(s)?;
                for a in &args[1..] {
                    self.expr_conv(a, el)?;
                }
                let info = self.elem_info(el)?;
                self.emit(Ins::Line(e.line));
                self.emit(Ins::Append { n: (args.len() - 1) as u32, elem: info });
                Ok(true)
            }
            Builtin::Panic => {
                let a = args.first().ok_or("internal: panic arity")?;
                let any = self.any_type();
                self.expr_conv(a, any)?;
                self.emit(Ins::Line(e.line));
                self.emit(Ins::Panic);
                Ok(false)
            }
            Builtin::Print | Builtin::Println => {
                let mut kinds = Vec::new();
                for a in args {
                    let at = self.ety(a);
                    match self.tt().under(at) {
                        Ty::Bool => kinds.push(NumKOrBool::Bool),
                        Ty::Int(_) | Ty::F32 | Ty::F64 | Ty::Str => kinds.push(NumKOrBool::Num(self.numk(at)?)),
                        _ => {
                            self.unsupported("print/println of a non-basic value");
                            return Ok(false);
                        }
                    }
                    self.expr(a)?;
                }
                self.prog.print_kinds.push(kinds);
                let ki = (self.prog.print_kinds.len() - 1) as u32;
                self.emit(Ins::Print { n: args.len() as u32, newline: b == Builtin::Println, kinds: ki });
                Ok(false)
            }
            Builtin::New => {
                let a = args.first().ok_or("internal: new arity")?;
                let t = *self.info.type_exprs.get(&strip(a).id).ok_or("internal: new type")?;
                let z = self.zero_const(t)?;
                self.emit(Ins::Const(z));
                self.emit(Ins::NewCell);
                Ok(true)
            }
            Builtin::Make => {
                let a = args.first().ok_or("internal: make arity")?;
                let t = *self.info.type_exprs.get(&strip(a).id).ok_or("internal: make type")?;
                let el = match self.tt().under(t) {
                    Ty::Slice(el) => *el,
                    _ => return Err("internal: make operand".into()),
                };
                let z = self.zero_const(el)?;
                let mut uns = [false, false];
                for (i, s) in args[1..].iter().enumerate() {
                    self.expr(s)?;
                    if i < 2 {
                        uns[i] = self.is_unsigned(self.ety(s));
                    }
                }
                self.emit(Ins::Line(e.line));
                self.emit(Ins::MakeSlice { has_cap: args.len() == 3, zero: z, len_unsigned: uns[0], cap_unsigned: uns[1] });
                Ok(true)
            }
            other => {
                self.unsupported(&format!("builtin {:?}", other));
                Ok(false)
            }
        }
    }

    fn any_type(&self) -> TypeId {
        // interface {} is interned at a fixed position by the checker's
        // universe setup; look it up structurally
        for (i, t) in self.tt().tys.iter().enumerate() {
            if matches!(t, Ty::Interface(ms) if ms.is_empty()) {
                return i as TypeId;
            }
        }
        T_INVALID
    }

    fn pkg_call(&mut self, e: &Expr, pf: PkgFn, args: &[Expr]) -> CResult<bool> {
        let any = self.any_type();
        match pf {
            PkgFn::FmtPrint | PkgFn::FmtPrintln | PkgFn::FmtSprint | PkgFn::FmtSprintln => {
                for a in args {
                    self.expr_conv(a, any)?;
                }
            }
            PkgFn::FmtPrintf | PkgFn::FmtSprintf => {
                for (i, a) in args.iter().enumerate() {
                    if i == 0 {
                        self.expr(a)?;
                    } else {
                        self.expr_conv(a, any)?;
                    }
                }
            }
            PkgFn::TimeUnix | PkgFn::TimeSleep | PkgFn::TimeNow | PkgFn::TimeSince => {
                self.unsupported(&format!("package time ({:?})", pf));
                return Ok(!matches!(pf, PkgFn::TimeSleep));
            }
        }
        self.emit(Ins::Line(e.line));
        self.emit(Ins::Fmt { f: pf, nargs: args.len() as u32 });
        Ok(matches!(pf, PkgFn::FmtSprint | PkgFn::FmtSprintln | PkgFn::FmtSprintf))
    }
}

enum AssignSrc<'e> {
    Expr(&'e Expr),
    OpAssign { op: BinOp, rhs: &'e Expr, result_ty: TypeId },
    IncDec { inc: bool },
}
