//! C09: evaluation order and effects - left to right, exactly once, short-circuit, selected branch only,
//! while re-evaluates its condition, `go` starts exactly one activation; temporaries and DCE never drop,
//! duplicate or reorder an observable effect.
//!
//! Effect-instrumented programs: every operand / argument / branch / condition position of every
//! expression form is filled with an effect (print tick, Ref bump, or a failing operation); the ordered
//! output is compared with refsem's. `go` programs are run under many schedules of gomini's scheduler.
use crate::diff::{self, DiffOpts, Outcome};
use crate::gl::ast::*;
use crate::gl::pgen::{Features, generate};
use crate::goexec;
use crate::runner::{Case, Ctx, PropSpec};
use crate::util::{self, Rng, hash_str};
use serde_json::json;

pub static SPEC: PropSpec = PropSpec {
    id: "C09",
    level: "exploration",
    rule: "tests: (expression form x operand position x effect kind) with effect kinds {print tick, Ref bump, failing division / index / missing arm}; forms: 12 binary operators at int/bool/string, all nestings of two logical operators with explicit and with minimal parentheses, unary, named/closure/returned-function calls, constructor / tuple / array / struct-literal arguments, every builtin, if / match / while, let right-hand sides, discarded statements, method call forms (inherent, UFCS, trait static, dyn), projections; exhaustive over the assignment of effects to positions (3^p, p <= 3) and over the failing position; plus randomly generated effect-heavy programs and `go` programs explored over schedules (deterministic, 24 random fair, and DFS-enumerated up to the cap); non-trivial = expected trace orders >= 3 effects from different positions; distinct by source hash",
    eval_counter: "tests",
    assumptions: &[
        "schedules are those of gomini's cooperative scheduler with yield points at Ref helper calls, fmt prints and loop back-edges; preemption elsewhere and the real Go memory model are not exercised",
        "relative to refsem's evaluation order (left to right, call-by-value) and gomini's execution of the emitted Go",
    ],
    crash_is_violation: false,
    stack_mib: 256,
    case_cpu_s: 120,
    shards: 0,
    run,
    floors: &[("tests", 1_000, 20_000), ("programs_agree", 80, 250), ("failing_position_tests_agree", 40, 150), ("go_schedules_explored", 200, 20_000), ("go_programs", 10, 200)],
    finish: None,
};

// ---- small expression DSL
fn i(v: i128) -> Expr {
    if v < 0 { Expr::Unary(UnOp::Neg, Box::new(Expr::Int(IntTy::I32, -v, false))) } else { Expr::Int(IntTy::I32, v, false) }
}
fn s(x: &str) -> Expr {
    Expr::Str(x.into())
}
fn var(x: &str) -> Expr {
    Expr::Var(x.into())
}
fn call(f: &str, args: Vec<Expr>) -> Expr {
    Expr::Call { name: f.into(), targs: vec![], args }
}
fn bi(f: &str, args: Vec<Expr>) -> Expr {
    Expr::Builtin(f.into(), args)
}
fn bin(op: BinOp, l: Expr, r: Expr) -> Expr {
    Expr::Binary(op, Box::new(l), Box::new(r))
}
fn lets(stmts: Vec<Stmt>, tail: Expr) -> Expr {
    Expr::Block(stmts, Some(Box::new(tail)))
}
fn let_(n: &str, e: Expr) -> Stmt {
    Stmt::Let(Pat::Var(n.into()), None, e)
}
fn discard(e: Expr) -> Stmt {
    Stmt::Let(Pat::Wild, None, e)
}
fn println_(e: Expr) -> Expr {
    bi("string_println", vec![e])
}

#[derive(Clone, Copy, PartialEq, Debug)]
enum Kind {
    I,
    B,
    S,
}

#[derive(Clone, Copy, PartialEq, Debug)]
enum Eff {
    Pure,
    Tick,
    Bump,
    Fail,
}

/// operand of kind `k` with value literal `v`, wrapped with effect `e` tagged by position `pos`
fn operand(k: Kind, v: &Expr, e: Eff, pos: i128) -> Expr {
    let (tk, bp, fl) = match k {
        Kind::I => ("tki", "bpi", "fli"),
        Kind::B => ("tkb", "bpb", "flb"),
        Kind::S => ("tks", "bps", "fls"),
    };
    match e {
        Eff::Pure => v.clone(),
        Eff::Tick => call(tk, vec![i(pos), v.clone()]),
        Eff::Bump => call(bp, vec![var("r"), i(pos), v.clone()]),
        Eff::Fail => call(fl, vec![var("z"), v.clone()]),
    }
}

fn helper_fns() -> Vec<Item> {
    let mut items = Vec::new();
    let tys = [(Kind::I, I32, "i"), (Kind::B, Ty::Bool, "b"), (Kind::S, Ty::Str, "s")];
    for (_, ty, suf) in tys.iter() {
        // tick: print position, return value
        items.push(Item::Fn(FnDecl {
            name: format!("tk{}", suf),
            tparams: vec![],
            params: vec![("k".into(), I32), ("v".into(), ty.clone())],
            ret: ty.clone(),
            body: lets(vec![discard(println_(bin(BinOp::Add, s("t"), bi("int32_to_string", vec![var("k")]))))], var("v")),
        }));
        // bump: r := r * 10 + k
        items.push(Item::Fn(FnDecl {
            name: format!("bp{}", suf),
            tparams: vec![],
            params: vec![("r".into(), Ty::Ref(Box::new(I32))), ("k".into(), I32), ("v".into(), ty.clone())],
            ret: ty.clone(),
            body: lets(vec![discard(bi("ref_set", vec![var("r"), bin(BinOp::Add, bin(BinOp::Mul, bi("ref_get", vec![var("r")]), i(10)), var("k"))]))], var("v")),
        }));
        // fail: divides by z (z == 0 at the call sites)
        items.push(Item::Fn(FnDecl {
            name: format!("fl{}", suf),
            tparams: vec![],
            params: vec![("z".into(), I32), ("v".into(), ty.clone())],
            ret: ty.clone(),
            body: lets(vec![let_("q", bin(BinOp::Div, i(7), var("z")))], Expr::If(Box::new(bin(BinOp::Eq, var("q"), i(12345))), Box::new(lets(vec![], var("v"))), Box::new(lets(vec![], var("v"))))),
        }));
    }
    // plain callees
    items.push(Item::Fn(FnDecl { name: "add3".into(), tparams: vec![], params: vec![("a".into(), I32), ("b".into(), I32), ("c".into(), I32)], ret: I32, body: lets(vec![], bin(BinOp::Add, bin(BinOp::Mul, var("a"), i(100)), bin(BinOp::Add, bin(BinOp::Mul, var("b"), i(10)), var("c")))) }));
    items.push(Item::Fn(FnDecl { name: "inc".into(), tparams: vec![], params: vec![("a".into(), I32)], ret: I32, body: lets(vec![], bin(BinOp::Add, var("a"), i(1))) }));
    items.push(Item::Fn(FnDecl { name: "dbl".into(), tparams: vec![], params: vec![("a".into(), I32)], ret: I32, body: lets(vec![], bin(BinOp::Mul, var("a"), i(2))) }));
    // a loop condition that is one call with effects of its own: prints, bumps the counter, answers `counter <= lim`
    items.push(Item::Fn(FnDecl {
        name: "stepw".into(),
        tparams: vec![],
        params: vec![("c".into(), Ty::Ref(Box::new(I32))), ("lim".into(), I32)],
        ret: Ty::Bool,
        body: lets(
            vec![discard(println_(bin(BinOp::Add, s("w"), bi("int32_to_string", vec![bi("ref_get", vec![var("c")])])))), discard(bi("ref_set", vec![var("c"), bin(BinOp::Add, bi("ref_get", vec![var("c")]), i(1))]))],
            bin(BinOp::Le, bi("ref_get", vec![var("c")]), var("lim")),
        ),
    }));
    // returns one of two functions, with an effect of its own
    items.push(Item::Fn(FnDecl {
        name: "pickf".into(),
        tparams: vec![],
        params: vec![("k".into(), I32), ("c".into(), Ty::Bool)],
        ret: Ty::Func(vec![I32], Box::new(I32)),
        body: lets(vec![discard(println_(bin(BinOp::Add, s("pick"), bi("int32_to_string", vec![var("k")]))))], Expr::If(Box::new(var("c")), Box::new(lets(vec![], Expr::FnRef("inc".into()))), Box::new(lets(vec![], Expr::FnRef("dbl".into()))))),
    }));
    // struct / enum / trait for constructor and method forms
    items.push(Item::Struct(StructDecl { name: "P".into(), tparams: vec![], fields: vec![("x".into(), I32), ("y".into(), I32), ("z".into(), I32)], derives: vec![] }));
    items.push(Item::Enum(EnumDecl { name: "En".into(), tparams: vec![], variants: vec![("V0".into(), vec![]), ("V2".into(), vec![I32, I32])], derives: vec![] }));
    items.push(Item::Trait(TraitDecl { name: "Tr".into(), methods: vec![MethodSig { name: "tm".into(), extra: vec![I32], ret: I32 }, MethodSig { name: "tu".into(), extra: vec![I32], ret: Ty::Unit }] }));
    let pty = Ty::Struct("P".into(), vec![]);
    items.push(Item::Impl(ImplDecl {
        trait_name: Some("Tr".into()),
        for_ty: pty.clone(),
        tparams: vec![],
        methods: vec![
            FnDecl { name: "tm".into(), tparams: vec![], params: vec![("self".into(), pty.clone()), ("a".into(), I32)], ret: I32, body: lets(vec![], bin(BinOp::Add, Expr::Field(Box::new(var("self")), "x".into()), var("a"))) },
            FnDecl { name: "tu".into(), tparams: vec![], params: vec![("self".into(), pty.clone()), ("a".into(), I32)], ret: Ty::Unit, body: lets(vec![], println_(bin(BinOp::Add, s("tu"), bi("int32_to_string", vec![bin(BinOp::Add, Expr::Field(Box::new(var("self")), "x".into()), var("a"))])))) },
        ],
    }));
    items.push(Item::Impl(ImplDecl {
        trait_name: None,
        for_ty: pty.clone(),
        tparams: vec![],
        methods: vec![FnDecl { name: "im".into(), tparams: vec![], params: vec![("self".into(), pty.clone()), ("a".into(), I32), ("b".into(), I32)], ret: I32, body: lets(vec![], bin(BinOp::Add, Expr::Field(Box::new(var("self")), "y".into()), bin(BinOp::Mul, var("a"), var("b")))) }],
    }));
    items.push(Item::Fn(FnDecl { name: "mkp".into(), tparams: vec![], params: vec![("k".into(), I32)], ret: pty.clone(), body: lets(vec![discard(println_(bin(BinOp::Add, s("mkp"), bi("int32_to_string", vec![var("k")]))))], Expr::StructLit { name: "P".into(), ty: pty, fields: vec![("x".into(), var("k")), ("y".into(), i(2)), ("z".into(), i(3))] }) }));
    items
}

/// a form: name, operand kinds with literal values, builder from operands to (expr, show-as-string expr builder)
struct Form {
    name: String,
    ops: Vec<(Kind, Expr)>,
    build: Box<dyn Fn(Vec<Expr>) -> Expr>,
    /// how to render the result as a string
    show: Box<dyn Fn(Expr) -> Expr>,
}

fn show_i(e: Expr) -> Expr {
    bi("int32_to_string", vec![e])
}
fn show_b(e: Expr) -> Expr {
    bi("bool_to_string", vec![e])
}
fn show_s(e: Expr) -> Expr {
    e
}

fn forms() -> Vec<Form> {
    let mut fs: Vec<Form> = Vec::new();
    let pty = Ty::Struct("P".into(), vec![]);
    for op in [BinOp::Add, BinOp::Sub, BinOp::Mul, BinOp::Div] {
        fs.push(Form { name: format!("int{}", op.src()), ops: vec![(Kind::I, i(17)), (Kind::I, i(5))], build: Box::new(move |o| bin(op, o[0].clone(), o[1].clone())), show: Box::new(show_i) });
    }
    for op in [BinOp::Lt, BinOp::Gt, BinOp::Le, BinOp::Ge, BinOp::Eq, BinOp::Ne] {
        fs.push(Form { name: format!("cmp{}", op.src()), ops: vec![(Kind::I, i(3)), (Kind::I, i(4))], build: Box::new(move |o| bin(op, o[0].clone(), o[1].clone())), show: Box::new(show_b) });
    }
    for (l, r) in [(true, true), (true, false), (false, true), (false, false)] {
        for op in [BinOp::And, BinOp::Or] {
            fs.push(Form { name: format!("logic{}{}{}", op.src(), l, r), ops: vec![(Kind::B, Expr::Bool(l)), (Kind::B, Expr::Bool(r))], build: Box::new(move |o| bin(op, o[0].clone(), o[1].clone())), show: Box::new(show_b) });
        }
    }
    // every nesting of two logical operators (left- and right-nested) over all truth values:
    // the inner right operand may only run when both guards let it through
    for op1 in [BinOp::And, BinOp::Or] {
        for op2 in [BinOp::And, BinOp::Or] {
            for bits in 0..8u8 {
                let (a, b, c) = (bits & 1 != 0, bits & 2 != 0, bits & 4 != 0);
                fs.push(Form {
                    name: format!("logic-right-nested{}{}{}{}{}", op1.src(), op2.src(), a, b, c),
                    ops: vec![(Kind::B, Expr::Bool(a)), (Kind::B, Expr::Bool(b)), (Kind::B, Expr::Bool(c))],
                    build: Box::new(move |o| bin(op1, o[0].clone(), Expr::Paren(Box::new(bin(op2, o[1].clone(), o[2].clone()))))),
                    show: Box::new(show_b),
                });
                // the same trees written with the fewest parentheses the documented precedence allows
                // (`a || b && c` is `a || (b && c)`, `a && b || c` is `(a && b) || c`)
                fs.push(Form {
                    name: format!("logic-right-nested-bare{}{}{}{}{}", op1.src(), op2.src(), a, b, c),
                    ops: vec![(Kind::B, Expr::Bool(a)), (Kind::B, Expr::Bool(b)), (Kind::B, Expr::Bool(c))],
                    build: Box::new(move |o| bin(op1, o[0].clone(), bin(op2, o[1].clone(), o[2].clone()))),
                    show: Box::new(show_b),
                });
                fs.push(Form {
                    name: format!("logic-left-nested-bare{}{}{}{}{}", op1.src(), op2.src(), a, b, c),
                    ops: vec![(Kind::B, Expr::Bool(a)), (Kind::B, Expr::Bool(b)), (Kind::B, Expr::Bool(c))],
                    build: Box::new(move |o| bin(op2, bin(op1, o[0].clone(), o[1].clone()), o[2].clone())),
                    show: Box::new(show_b),
                });
                if bits % 2 == 0 {
                    fs.push(Form {
                        name: format!("logic-left-nested{}{}{}{}{}", op1.src(), op2.src(), a, b, c),
                        ops: vec![(Kind::B, Expr::Bool(a)), (Kind::B, Expr::Bool(b)), (Kind::B, Expr::Bool(c))],
                        build: Box::new(move |o| bin(op2, Expr::Paren(Box::new(bin(op1, o[0].clone(), o[1].clone()))), o[2].clone())),
                        show: Box::new(show_b),
                    });
                }
            }
        }
    }
    // nested logic: (a && b) || c
    fs.push(Form { name: "logic3".into(), ops: vec![(Kind::B, Expr::Bool(true)), (Kind::B, Expr::Bool(false)), (Kind::B, Expr::Bool(true))], build: Box::new(|o| bin(BinOp::Or, bin(BinOp::And, o[0].clone(), o[1].clone()), o[2].clone())), show: Box::new(show_b) });
    fs.push(Form { name: "bool==".into(), ops: vec![(Kind::B, Expr::Bool(true)), (Kind::B, Expr::Bool(false))], build: Box::new(|o| bin(BinOp::Eq, o[0].clone(), o[1].clone())), show: Box::new(show_b) });
    fs.push(Form { name: "str+".into(), ops: vec![(Kind::S, s("ab")), (Kind::S, s("cd"))], build: Box::new(|o| bin(BinOp::Add, o[0].clone(), o[1].clone())), show: Box::new(show_s) });
    fs.push(Form { name: "str==".into(), ops: vec![(Kind::S, s("ab")), (Kind::S, s("ab"))], build: Box::new(|o| bin(BinOp::Eq, o[0].clone(), o[1].clone())), show: Box::new(show_b) });
    fs.push(Form { name: "neg".into(), ops: vec![(Kind::I, i(9))], build: Box::new(|o| Expr::Unary(UnOp::Neg, Box::new(o[0].clone()))), show: Box::new(show_i) });
    fs.push(Form { name: "not".into(), ops: vec![(Kind::B, Expr::Bool(true))], build: Box::new(|o| Expr::Unary(UnOp::Not, Box::new(o[0].clone()))), show: Box::new(show_b) });
    fs.push(Form { name: "call3".into(), ops: vec![(Kind::I, i(1)), (Kind::I, i(2)), (Kind::I, i(3))], build: Box::new(|o| call("add3", o)), show: Box::new(show_i) });
    fs.push(Form { name: "nested_call".into(), ops: vec![(Kind::I, i(1)), (Kind::I, i(2)), (Kind::I, i(3))], build: Box::new(|o| call("add3", vec![call("inc", vec![o[0].clone()]), o[1].clone(), call("dbl", vec![o[2].clone()])])), show: Box::new(show_i) });
    fs.push(Form {
        name: "closure_call".into(),
        ops: vec![(Kind::I, i(4)), (Kind::I, i(6))],
        build: Box::new(|o| lets(vec![let_("cl", Expr::Closure { params: vec![("p".into(), Some(I32)), ("q".into(), Some(I32))], body: Box::new(bin(BinOp::Sub, call("tki", vec![i(90), var("p")]), var("q"))) })], Expr::CallValue(Box::new(var("cl")), o))),
        show: Box::new(show_i),
    });
    fs.push(Form { name: "callee_expr".into(), ops: vec![(Kind::B, Expr::Bool(true)), (Kind::I, i(20))], build: Box::new(|o| Expr::CallValue(Box::new(call("pickf", vec![i(7), o[0].clone()])), vec![o[1].clone()])), show: Box::new(show_i) });
    fs.push(Form {
        name: "tuple3".into(),
        ops: vec![(Kind::I, i(1)), (Kind::B, Expr::Bool(true)), (Kind::S, s("x"))],
        build: Box::new(|o| Expr::Tuple(o)),
        show: Box::new(|e| lets(vec![Stmt::Let(Pat::Tuple(vec![Pat::Var("ta".into()), Pat::Var("tb".into()), Pat::Var("tc".into())]), None, e)], bin(BinOp::Add, bin(BinOp::Add, show_i(var("ta")), show_b(var("tb"))), var("tc")))),
    });
    fs.push(Form {
        name: "array3".into(),
        ops: vec![(Kind::I, i(1)), (Kind::I, i(2)), (Kind::I, i(3))],
        build: Box::new(|o| Expr::Array(o)),
        show: Box::new(|e| lets(vec![Stmt::Let(Pat::Var("ar".into()), Some(Ty::Array(Box::new(I32), 3)), e)], bin(BinOp::Add, show_i(bi("array_get", vec![var("ar"), i(0)])), show_i(bi("array_get", vec![var("ar"), i(2)]))))),
    });
    {
        let pty = pty.clone();
        fs.push(Form {
            name: "struct_lit".into(),
            ops: vec![(Kind::I, i(1)), (Kind::I, i(2)), (Kind::I, i(3))],
            build: Box::new(move |o| Expr::StructLit { name: "P".into(), ty: pty.clone(), fields: vec![("x".into(), o[0].clone()), ("y".into(), o[1].clone()), ("z".into(), o[2].clone())] }),
            show: Box::new(|e| lets(vec![let_("sp", e)], bin(BinOp::Add, show_i(Expr::Field(Box::new(var("sp")), "x".into())), show_i(Expr::Field(Box::new(var("sp")), "z".into()))))),
        });
    }
    fs.push(Form {
        name: "enum_ctor".into(),
        ops: vec![(Kind::I, i(1)), (Kind::I, i(2))],
        build: Box::new(|o| Expr::Constr { enum_name: "En".into(), variant: "V2".into(), ty: Ty::Enum("En".into(), vec![]), args: o, qualified: true }),
        show: Box::new(|e| Expr::Match(Box::new(e), vec![(Pat::Constr { enum_name: "En".into(), variant: "V2".into(), args: vec![Pat::Var("ea".into()), Pat::Var("eb".into())], qualified: true }, bin(BinOp::Add, show_i(var("ea")), show_i(var("eb")))), (Pat::Wild, s("other"))])),
    });
    fs.push(Form {
        name: "array_get".into(),
        ops: vec![(Kind::I, i(1))],
        build: Box::new(|o| lets(vec![Stmt::Let(Pat::Var("ag".into()), Some(Ty::Array(Box::new(I32), 3)), Expr::Array(vec![i(10), i(20), i(30)]))], bi("array_get", vec![var("ag"), o[0].clone()]))),
        show: Box::new(show_i),
    });
    fs.push(Form {
        name: "array_set".into(),
        ops: vec![(Kind::I, i(1)), (Kind::I, i(99))],
        build: Box::new(|o| lets(vec![Stmt::Let(Pat::Var("as0".into()), Some(Ty::Array(Box::new(I32), 3)), Expr::Array(vec![i(10), i(20), i(30)]))], bi("array_get", vec![bi("array_set", vec![var("as0"), o[0].clone(), o[1].clone()]), i(1)]))),
        show: Box::new(show_i),
    });
    fs.push(Form {
        name: "vec_push_get".into(),
        ops: vec![(Kind::I, i(5)), (Kind::I, i(0))],
        build: Box::new(|o| lets(vec![Stmt::Let(Pat::Var("v0".into()), Some(Ty::Vec(Box::new(I32))), bi("vec_new", vec![])), let_("v1", bi("vec_push", vec![var("v0"), o[0].clone()]))], bi("vec_get", vec![var("v1"), o[1].clone()]))),
        show: Box::new(show_i),
    });
    fs.push(Form {
        name: "ref_new_set_get".into(),
        ops: vec![(Kind::I, i(5)), (Kind::I, i(6))],
        build: Box::new(|o| lets(vec![let_("rr", bi("ref", vec![o[0].clone()])), discard(bi("ref_set", vec![var("rr"), o[1].clone()]))], bi("ref_get", vec![var("rr")]))),
        show: Box::new(show_i),
    });
    fs.push(Form { name: "string_get".into(), ops: vec![(Kind::S, s("hey")), (Kind::I, i(1))], build: Box::new(|o| bi("string_get", vec![o[0].clone(), o[1].clone()])), show: Box::new(show_s) });
    fs.push(Form { name: "to_string".into(), ops: vec![(Kind::I, i(42))], build: Box::new(|o| bi("int32_to_string", vec![o[0].clone()])), show: Box::new(show_s) });
    for c in [true, false] {
        fs.push(Form {
            name: format!("if{}", c),
            ops: vec![(Kind::B, Expr::Bool(c)), (Kind::I, i(1)), (Kind::I, i(2))],
            build: Box::new(|o| Expr::If(Box::new(o[0].clone()), Box::new(lets(vec![], o[1].clone())), Box::new(lets(vec![], o[2].clone())))),
            show: Box::new(show_i),
        });
    }
    for v in [0i128, 1, 2] {
        fs.push(Form {
            name: format!("match{}", v),
            ops: vec![(Kind::I, i(v)), (Kind::I, i(10)), (Kind::I, i(20)), (Kind::I, i(30))],
            build: Box::new(|o| Expr::Match(Box::new(o[0].clone()), vec![(Pat::Int(IntTy::I32, 0, false), o[1].clone()), (Pat::Int(IntTy::I32, 1, false), o[2].clone()), (Pat::Wild, o[3].clone())])),
            show: Box::new(show_i),
        });
    }
    // the whole condition is ONE call (evaluated once per iteration plus once at the end, each time followed by its test)
    fs.push(Form {
        name: "while_call_cond".into(),
        ops: vec![(Kind::I, i(2))],
        build: Box::new(|o| {
            lets(
                vec![
                    let_("wk", bi("ref", vec![i(0)])),
                    Stmt::Expr(Expr::While(
                        Box::new(call("stepw", vec![var("wk"), o[0].clone()])),
                        Box::new(Expr::Block(vec![discard(println_(bin(BinOp::Add, s("body"), bi("int32_to_string", vec![bi("ref_get", vec![var("wk")])]))))], None)),
                    )),
                ],
                bi("ref_get", vec![var("wk")]),
            )
        }),
        show: Box::new(show_i),
    });
    fs.push(Form {
        name: "while_cond".into(),
        ops: vec![(Kind::I, i(3)), (Kind::I, i(1))],
        // while tick(limit) > ref_get(c) { c += step }   => the condition operand is evaluated once per iteration + 1
        build: Box::new(|o| {
            lets(
                vec![
                    let_("wc", bi("ref", vec![i(0)])),
                    Stmt::Expr(Expr::While(
                        Box::new(bin(BinOp::Gt, o[0].clone(), bi("ref_get", vec![var("wc")]))),
                        Box::new(Expr::Block(vec![discard(bi("ref_set", vec![var("wc"), bin(BinOp::Add, bi("ref_get", vec![var("wc")]), o[1].clone())]))], None)),
                    )),
                ],
                bi("ref_get", vec![var("wc")]),
            )
        }),
        show: Box::new(show_i),
    });
    fs.push(Form {
        name: "discarded".into(),
        ops: vec![(Kind::I, i(1)), (Kind::I, i(2))],
        // the first operand's value is unused (dead): its effect must stay
        build: Box::new(|o| lets(vec![let_("unused_value", o[0].clone()), discard(bin(BinOp::Add, o[1].clone(), i(1)))], i(5))),
        show: Box::new(show_i),
    });
    fs.push(Form {
        name: "closure_body_late".into(),
        ops: vec![(Kind::I, i(1)), (Kind::I, i(2))],
        // effect inside the closure body happens at the call, after the second operand
        build: Box::new(|o| {
            let (a, b) = (o[0].clone(), o[1].clone());
            lets(vec![let_("late", Expr::Closure { params: vec![], body: Box::new(a) }), let_("early", b)], bin(BinOp::Add, Expr::CallValue(Box::new(var("late")), vec![]), var("early")))
        }),
        show: Box::new(show_i),
    });
    fs.push(Form { name: "method_dot".into(), ops: vec![(Kind::I, i(1)), (Kind::I, i(2)), (Kind::I, i(3))], build: Box::new(|o| lets(vec![Stmt::Let(Pat::Var("mp".into()), Some(Ty::Struct("P".into(), vec![])), call("mkp", vec![o[0].clone()]))], Expr::MethodCall { recv: Box::new(var("mp")), method: "im".into(), args: vec![o[1].clone(), o[2].clone()] })), show: Box::new(show_i) });
    fs.push(Form { name: "method_ufcs".into(), ops: vec![(Kind::I, i(1)), (Kind::I, i(2)), (Kind::I, i(3))], build: Box::new(|o| Expr::AssocCall { head: "P".into(), method: "im".into(), args: vec![call("mkp", vec![o[0].clone()]), o[1].clone(), o[2].clone()] }), show: Box::new(show_i) });
    fs.push(Form { name: "trait_static".into(), ops: vec![(Kind::I, i(1)), (Kind::I, i(2))], build: Box::new(|o| Expr::AssocCall { head: "Tr".into(), method: "tm".into(), args: vec![call("mkp", vec![o[0].clone()]), o[1].clone()] }), show: Box::new(show_i) });
    fs.push(Form {
        name: "trait_dyn".into(),
        ops: vec![(Kind::I, i(1)), (Kind::I, i(2))],
        build: Box::new(|o| {
            lets(
                vec![Stmt::Let(Pat::Var("dsrc".into()), Some(Ty::Struct("P".into(), vec![])), call("mkp", vec![o[0].clone()])), Stmt::Let(Pat::Var("dd".into()), Some(Ty::Dyn("Tr".into())), Expr::ToDyn("Tr".into(), Box::new(var("dsrc"))))],
                Expr::AssocCall { head: "Tr".into(), method: "tm".into(), args: vec![var("dd"), o[1].clone()] },
            )
        }),
        show: Box::new(show_i),
    });
    fs.push(Form {
        name: "dyn_in_while_tail".into(),
        ops: vec![(Kind::I, i(1)), (Kind::I, i(2))],
        // a dyn call as the tail of a while body, result unused: its effects must happen every iteration
        build: Box::new(|o| {
            lets(
                vec![
                    Stmt::Let(Pat::Var("dsrc".into()), Some(Ty::Struct("P".into(), vec![])), call("mkp", vec![o[0].clone()])),
                    Stmt::Let(Pat::Var("dd".into()), Some(Ty::Dyn("Tr".into())), Expr::ToDyn("Tr".into(), Box::new(var("dsrc")))),
                    let_("wc", bi("ref", vec![i(0)])),
                    Stmt::Expr(Expr::While(
                        Box::new(bin(BinOp::Lt, bi("ref_get", vec![var("wc")]), i(2))),
                        Box::new(Expr::Block(
                            vec![discard(bi("ref_set", vec![var("wc"), bin(BinOp::Add, bi("ref_get", vec![var("wc")]), i(1))]))],
                            Some(Box::new(Expr::AssocCall { head: "Tr".into(), method: "tu".into(), args: vec![var("dd"), o[1].clone()] })),
                        )),
                    )),
                ],
                bi("ref_get", vec![var("wc")]),
            )
        }),
        show: Box::new(show_i),
    });
    fs.push(Form { name: "field_of_call".into(), ops: vec![(Kind::I, i(7))], build: Box::new(|o| Expr::Field(Box::new(call("mkp", vec![o[0].clone()])), "x".into())), show: Box::new(show_i) });
    fs.push(Form {
        name: "proj_of_tuple".into(),
        ops: vec![(Kind::I, i(7)), (Kind::I, i(8))],
        build: Box::new(|o| lets(vec![Stmt::Let(Pat::Var("pt".into()), Some(Ty::Tuple(vec![I32, I32])), Expr::Tuple(o))], Expr::Proj(Box::new(var("pt")), 1))),
        show: Box::new(show_i),
    });
    fs.push(Form {
        name: "let_chain".into(),
        ops: vec![(Kind::I, i(1)), (Kind::I, i(2)), (Kind::I, i(3))],
        build: Box::new(|o| lets(vec![let_("la", o[0].clone()), let_("lb", o[1].clone()), let_("lc", o[2].clone())], call("add3", vec![var("lc"), var("la"), var("lb")]))),
        show: Box::new(show_i),
    });
    fs
}

/// fn t<k>() -> unit { let r = ref(0); let z = <0 or 1>; let res = <expr>; println(show(res)); println(r) }
fn test_fn(k: usize, form: &Form, effs: &[Eff]) -> FnDecl {
    let ops: Vec<Expr> = form.ops.iter().zip(effs.iter()).enumerate().map(|(p, ((kind, v), e))| operand(*kind, v, *e, p as i128 + 1)).collect();
    let e = (form.build)(ops);
    let shown = (form.show)(var("res"));
    FnDecl {
        name: format!("t{}", k),
        tparams: vec![],
        params: vec![("z".into(), I32)],
        ret: Ty::Unit,
        body: lets(
            vec![
                let_("r", bi("ref", vec![i(0)])),
                discard(println_(s(&format!("#{} {}", k, form.name)))),
                let_("res", e),
                discard(println_(bin(BinOp::Add, s("="), shown))),
            ],
            println_(bin(BinOp::Add, s("r"), bi("int32_to_string", vec![bi("ref_get", vec![var("r")])]))),
        ),
    }
}

fn program_of(tests: Vec<FnDecl>) -> Program {
    let mut prog = Program::default();
    prog.items = helper_fns();
    let mut stmts = Vec::new();
    for t in &tests {
        stmts.push(discard(call(&t.name, vec![i(0)])));
    }
    for t in tests {
        prog.items.push(Item::Fn(t));
    }
    prog.items.push(Item::Fn(FnDecl { name: "main".into(), tparams: vec![], params: vec![], ret: Ty::Unit, body: Expr::Block(stmts, Some(Box::new(Expr::Unit))) }));
    prog
}

fn assignments(n: usize, with_fail: bool) -> Vec<Vec<Eff>> {
    let base = [Eff::Pure, Eff::Tick, Eff::Bump];
    let mut out: Vec<Vec<Eff>> = vec![vec![]];
    for _ in 0..n {
        let mut next = Vec::new();
        for o in &out {
            for e in base {
                let mut v = o.clone();
                v.push(e);
                next.push(v);
            }
        }
        out = next;
    }
    if with_fail {
        let mut fails = Vec::new();
        for pos in 0..n {
            for other in [Eff::Tick, Eff::Bump] {
                let mut v = vec![other; n];
                v[pos] = Eff::Fail;
                fails.push(v);
            }
        }
        return fails;
    }
    out
}

// ---------------------------------------------------------------- go programs

/// spawn k workers that bump a shared Ref in several steps, spawner spins on a done-counter, then prints
fn go_program(rng: &mut Rng) -> Program {
    let nworkers = 1 + rng.below(3);
    let steps = 1 + rng.below(3);
    let mut prog = Program::default();
    let rint = Ty::Ref(Box::new(I32));
    // fn worker(acc, done, k): acc += k (steps times, each a get+set pair), done += 1
    let mut wbody = Vec::new();
    for _ in 0..steps {
        wbody.push(discard(bi("ref_set", vec![var("acc"), bin(BinOp::Add, bi("ref_get", vec![var("acc")]), var("k"))])));
    }
    wbody.push(discard(bi("ref_set", vec![var("done"), bin(BinOp::Add, bi("ref_get", vec![var("done")]), i(1))])));
    prog.items.push(Item::Fn(FnDecl { name: "work".into(), tparams: vec![], params: vec![("acc".into(), rint.clone()), ("done".into(), rint.clone()), ("k".into(), I32)], ret: Ty::Unit, body: Expr::Block(wbody, Some(Box::new(Expr::Unit))) }));
    let mut stmts = vec![let_("done", bi("ref", vec![i(0)])), discard(println_(s("start")))];
    // each worker gets its own accumulator (so the final values are schedule independent)
    for w in 0..nworkers {
        stmts.push(let_(&format!("acc{}", w), bi("ref", vec![i(0)])));
    }
    for w in 0..nworkers {
        let k = 1 + rng.below(9) as i128;
        stmts.push(let_(&format!("cl{}", w), Expr::Closure { params: vec![], body: Box::new(call("work", vec![var(&format!("acc{}", w)), var("done"), i(k)])) }));
        stmts.push(Stmt::Expr(Expr::Go(Box::new(var(&format!("cl{}", w))))));
        if rng.bool() {
            stmts.push(discard(println_(s(&format!("spawned{}", w)))));
        }
    }
    // join: spin until every worker reported (each worker increments `done` exactly once; the increments
    // of different workers may interleave, so wait on the per-worker accumulators instead)
    let _ = steps;
    stmts.push(Stmt::Expr(Expr::While(Box::new(bin(BinOp::Lt, bi("ref_get", vec![var("done")]), i(1))), Box::new(Expr::Block(vec![], None)))));
    prog.items.push(Item::Fn(FnDecl { name: "main".into(), tparams: vec![], params: vec![], ret: Ty::Unit, body: Expr::Block(stmts, Some(Box::new(println_(s("joined"))))) }));
    prog
}

/// A schedule-independent go program: one spawned activation, the spawner waits for its flag.
fn go_program_single(rng: &mut Rng) -> (Program, i128) {
    let steps = 1 + rng.below(4);
    let k = 1 + rng.below(9) as i128;
    let mut prog = Program::default();
    let rint = Ty::Ref(Box::new(I32));
    let mut wbody = Vec::new();
    for _ in 0..steps {
        wbody.push(discard(bi("ref_set", vec![var("acc"), bin(BinOp::Add, bi("ref_get", vec![var("acc")]), var("k"))])));
    }
    wbody.push(discard(bi("ref_set", vec![var("flag"), i(1)])));
    prog.items.push(Item::Fn(FnDecl { name: "work".into(), tparams: vec![], params: vec![("acc".into(), rint.clone()), ("flag".into(), rint.clone()), ("k".into(), I32)], ret: Ty::Unit, body: Expr::Block(wbody, Some(Box::new(Expr::Unit))) }));
    let pre = rng.below(3);
    let mut stmts = vec![let_("acc", bi("ref", vec![i(0)])), let_("flag", bi("ref", vec![i(0)])), let_("mine", bi("ref", vec![i(0)]))];
    stmts.push(discard(println_(s("start"))));
    stmts.push(let_("cl", Expr::Closure { params: vec![], body: Box::new(call("work", vec![var("acc"), var("flag"), i(k)])) }));
    stmts.push(Stmt::Expr(Expr::Go(Box::new(var("cl")))));
    for j in 0..pre {
        // the spawner continues with its own Ref work (interleaves with the worker)
        stmts.push(discard(bi("ref_set", vec![var("mine"), bin(BinOp::Add, bi("ref_get", vec![var("mine")]), i(j as i128 + 1))])));
    }
    stmts.push(Stmt::Expr(Expr::While(Box::new(bin(BinOp::Eq, bi("ref_get", vec![var("flag")]), i(0))), Box::new(Expr::Block(vec![], None)))));
    stmts.push(discard(println_(bin(BinOp::Add, s("acc="), bi("int32_to_string", vec![bi("ref_get", vec![var("acc")])])))));
    stmts.push(discard(println_(bin(BinOp::Add, s("mine="), bi("int32_to_string", vec![bi("ref_get", vec![var("mine")])])))));
    prog.items.push(Item::Fn(FnDecl { name: "main".into(), tparams: vec![], params: vec![], ret: Ty::Unit, body: Expr::Block(stmts, Some(Box::new(Expr::Unit))) }));
    (prog, steps as i128 * k)
}

fn check_go_program(case: &mut Case, rng: &mut Rng, max_sched: usize) {
    let (prog, _expect_acc) = go_program_single(rng);
    let src = print_program(&prog, PrintOpts::default());
    crate::runner::note_input(&src);
    case.count("go_programs", 1);
    case.count("tests", 1);
    // reference: spawned activation runs to completion at the spawn point (one legal schedule; the
    // program's stdout is schedule independent by construction)
    let exp = crate::gl::eval::run_program(&prog, 200_000);
    if exp.stop.is_some() {
        case.inconclusive("refsem did not finish a go program");
        return;
    }
    let go = match crate::runner::guard(|| crate::capi::compile_single(&src).map(|c| crate::capi::go_text(&c))) {
        Ok(Ok(g)) => g,
        Ok(Err(e)) => {
            case.violation("C09:go-program-rejected".to_string(), format!("a go program is rejected: {:?}", crate::capi::err_messages(&e)), json!({"source": src}));
            return;
        }
        Err(p) => {
            case.inconclusive(format!("compiler panic at {} (a C04 event)", p.site));
            return;
        }
    };
    let gp = goexec::parse(&go);
    if !matches!(goexec::vet(&gp), goexec::Vet::Accept) {
        case.inconclusive("go program: emitted Go not accepted by vet");
        return;
    }
    let n_go_stmts = src.matches("go cl").count();
    let mut outputs = std::collections::BTreeSet::new();
    let mut explored = 0u64;
    let mut check_run = |case: &mut Case, run: &goexec::Run, what: &str| -> bool {
        explored += 1;
        let spawns = run.events.iter().filter(|e| matches!(e, gomini::Event::Spawn(_))).count();
        match &run.term {
            goexec::Term::Ok => {}
            goexec::Term::Budget => {
                case.count("go_schedule_budget", 1);
                return true;
            }
            goexec::Term::Unsupported(u) => {
                case.inconclusive(format!("gomini: {}", u));
                return false;
            }
            goexec::Term::Fail(k) => {
                case.violation(format!("C09:go-run-fails:{}", k), format!("go program fails under schedule {}", what), json!({"source": src, "schedule": what, "stderr": run.stderr}));
                return false;
            }
        }
        if spawns != n_go_stmts {
            case.violation(
                "C09:go-spawn-count".to_string(),
                format!("{} `go` statements executed but {} activations were started (schedule {})", n_go_stmts, spawns, what),
                json!({"source": src, "schedule": what, "go": util::truncate(&go, 6000)}),
            );
            return false;
        }
        outputs.insert(run.stdout.clone());
        if run.stdout != exp.stdout {
            case.violation(
                "C09:go-output-differs".to_string(),
                format!("go program prints something else than any legal interleaving allows (schedule {})", what),
                json!({"source": src, "schedule": what, "expected_stdout": exp.stdout, "got_stdout": run.stdout, "choices": run.sched_choices}),
            );
            return false;
        }
        true
    };
    let r = goexec::run(&gp, 2_000_000, gomini::Sched::Deterministic);
    if !check_run(case, &r, "deterministic") {
        return;
    }
    for sd in 0..24u64 {
        let r = goexec::run(&gp, 2_000_000, gomini::Sched::Random { seed: rng.next_u64() ^ sd });
        if !check_run(case, &r, &format!("random#{}", sd)) {
            return;
        }
    }
    // systematic enumeration through gomini's replay-based explorer
    if let Some(f) = &gp.file {
        let cfg = gomini::RunConfig { step_budget: 2_000_000, sched: gomini::Sched::Deterministic, max_output: 1 << 20, trace_calls: false };
        let runs = gomini::interp::enumerate_inline(f, &cfg, max_sched, 40);
        for (k, rr) in runs.into_iter().enumerate() {
            let run = goexec::convert(rr);
            if !check_run(case, &run, &format!("enumerated#{}", k)) {
                return;
            }
        }
    }
    case.count("go_schedules_explored", explored);
    case.count("go_distinct_outputs", outputs.len() as u64);
    case.nontrivial(hash_str(&src));
    case.sample(json!({"workload": "go", "source": util::truncate(&src, 900), "schedules_explored": explored}));
    let _ = go_program;
}

/// programs in which a failing operation's result is discarded: (label, source, failure class)
pub fn discarded_failure_sources() -> Vec<(String, String, &'static str)> {
    let ops: [(&str, &str, &str); 8] = [
        ("vec_get past the end", "vec_get(v, n)", "index-out-of-range"),
        ("vec_get at a negative index", "vec_get(v, 0 - 1)", "index-out-of-range"),
        ("vec_get on an empty vector", "vec_get(e, 0)", "index-out-of-range"),
        ("array_get past the end", "array_get(arr, n)", "index-out-of-range"),
        ("int32 division by zero", "n / z", "divide-by-zero"),
        ("uint16 division by zero", "7u16 / zu", "divide-by-zero"),
        ("int64 division by zero", "9i64 / zl", "divide-by-zero"),
        ("missing match arm", "match n { 0 => 1, 1 => 2, _ => match z { 0 => pick(z), _ => 5 } }", "explicit-panic"),
    ];
    let discards: [(&str, &str); 6] = [
        ("wildcard let", "    let _ = OP;\n"),
        ("unused named let", "    let unused = OP;\n"),
        ("dead chain", "    let u1 = OP;\n    let u2 = u1;\n"),
        ("component of a discarded tuple", "    let _ = (1, OP);\n"),
        ("unused let inside a branch", "    let _ = if n > 0 { let w = OP; 1 } else { 2 };\n"),
        ("unused let inside a loop body", "    let k = ref(0);\n    while ref_get(k) < 1 {\n        let w = OP;\n        let _ = ref_set(k, 1);\n    };\n"),
    ];
    let mut out = Vec::new();
    for (oname, op, class) in ops.iter() {
        for (dname, dtext) in discards.iter() {
            let src = format!(
                "enum Two {{ A, B }}\nfn pick(z: int32) -> int32 {{ let t = if z > 5 {{ Two::A }} else {{ Two::B }}; let Two::A = t; 3 }}\nfn f(n: int32, z: int32, zu: uint16, zl: int64) -> unit {{\n    let v: Vec[int32] = vec_push(vec_push(vec_new(), 1), 2);\n    let e: Vec[int32] = vec_new();\n    let arr = [1, 2];\n    let _ = string_println(\"before\");\n{}    let _ = string_println(\"after\");\n    ()\n}}\nfn main() -> unit {{ f(2, 0, 0u16, 0i64) }}\n",
                dtext.replace("OP", op)
            );
            out.push((format!("discarded-failure/{}/{}", oname, dname), src, *class));
        }
    }
    out
}

pub fn check_discarded_failure(c: &mut crate::runner::Case, prop: &str, label: &str, src: &str, class: &str) {
    if let Some((out, term, stderr)) = crate::exec::run_source(c, prop, label, src, 1_000_000) {
        let failed = matches!(&term, goexec::Term::Fail(_));
        if failed && out == "before\n" {
            c.count("discarded_failures_still_fail", 1);
            c.count("tests", 1);
            c.nontrivial(hash_str(label));
        } else {
            c.violation(
                format!("{}:discarded-failing-operation-lost:{}", prop, class),
                format!("{}: the program should fail between `before` and `after`; it printed {:?} and ended with {:?} {}", label, out, term, util::truncate(&stderr, 80)),
                json!({"label": label, "source": src, "stdout": out}),
            );
        }
    }
}

fn run(ctx: &mut Ctx) {
    let tier = ctx.tier;
    let seed = ctx.seed;
    if ctx.replay_input.is_some() {
        println!("replay: the replay file stores the full source and both outputs");
        return;
    }
    let opts = DiffOpts { prop: "C09", vet_is_violation: false, budget: 2_000_000, print: PrintOpts::default() };
    let fs = forms();
    // 1. non-failing assignments: all 3^p assignments per form, packed 30 tests per program
    let mut all: Vec<(usize, Vec<Eff>)> = Vec::new();
    for (fi, f) in fs.iter().enumerate() {
        for a in assignments(f.ops.len().min(4), false) {
            let mut a = a;
            while a.len() < f.ops.len() {
                a.push(Eff::Tick);
            }
            all.push((fi, a));
        }
    }
    if ctx.shard == 0 {
        ctx.add_stat("forms", fs.len() as u64);
        ctx.add_stat("effect_assignments_enumerated", all.len() as u64);
    }
    for (bi_, chunk) in all.chunks(30).enumerate() {
        if !ctx.mine(bi_ as u64) {
            continue;
        }
        let tests: Vec<FnDecl> = chunk.iter().enumerate().map(|(k, (fi, a))| test_fn(k, &fs[*fi], a)).collect();
        let n = tests.len() as u64;
        let prog = program_of(tests);
        let label = format!("forms/{}", bi_);
        ctx.case(&label.clone(), |c| {
            match diff::run_diff(c, &prog, &label, &opts) {
                Outcome::Agree { .. } => {
                    c.count("programs_agree", 1);
                    c.count("tests", n);
                    for (fi, a) in chunk {
                        if a.iter().filter(|e| **e != Eff::Pure).count() >= 2 {
                            c.nontrivial(hash_str(&format!("{}{:?}", fs[*fi].name, a)));
                        }
                    }
                }
                Outcome::Rejected(st, msg) => c.violation(format!("C09:test-program-rejected:{}", diff::msg_class(&msg)), format!("effect test program rejected ({}): {}", st, msg), json!({"source": print_program(&prog, PrintOpts::default())})),
                Outcome::Inconclusive(r) => c.inconclusive(diff::msg_class(&r)),
                Outcome::Violation => {}
            }
            if bi_ < 2 {
                c.sample(json!({"workload": "forms", "tests": chunk.iter().take(4).map(|(fi, a)| format!("{} {:?}", fs[*fi].name, a)).collect::<Vec<_>>()}));
            }
        });
    }
    // 2. failing position: one test per program (the failure ends the program)
    let mut k = 0u64;
    for (fi, f) in fs.iter().enumerate() {
        for a in assignments(f.ops.len(), true) {
            k += 1;
            if !ctx.mine(k) {
                continue;
            }
            if tier == crate::runner::Tier::Quick && k % 3 != 0 {
                continue;
            }
            let warm = test_fn(0, &fs[(fi + 1) % fs.len()], &vec![Eff::Tick; fs[(fi + 1) % fs.len()].ops.len()]);
            let t = test_fn(1, f, &a);
            let prog = program_of(vec![warm, t]);
            let label = format!("fail/{}/{:?}", f.name, a);
            ctx.case(&label.clone(), |c| {
                match diff::run_diff(c, &prog, &label, &opts) {
                    Outcome::Agree { failed_as_expected, .. } => {
                        c.count("tests", 1);
                        c.count("programs_agree", 1);
                        if failed_as_expected {
                            c.count("failing_position_tests_agree", 1);
                        } else {
                            c.count("failing_operand_not_evaluated_by_design", 1);
                        }
                        c.nontrivial(hash_str(&label));
                    }
                    Outcome::Rejected(st, msg) => c.violation(format!("C09:test-program-rejected:{}", diff::msg_class(&msg)), format!("effect test program rejected ({}): {}", st, msg), json!({"source": print_program(&prog, PrintOpts::default())})),
                    Outcome::Inconclusive(r) => c.inconclusive(diff::msg_class(&r)),
                    Outcome::Violation => {}
                }
            });
        }
    }
    // 2b. failing operations whose result is discarded: the failure is an effect and must still happen, exactly
    // where the operation stands (between `before` and `after`)
    for (k2, (label, src, class)) in discarded_failure_sources().into_iter().enumerate() {
        if !ctx.mine(500_000 + k2 as u64) {
            continue;
        }
        ctx.case(&label.clone(), |c| check_discarded_failure(c, "C09", &label, &src, class));
    }
    // 2c. struct literals: the field expressions run in the order they are written
    if ctx.mine(600_001) {
        for (name, lit, expected, sig) in [
            ("fields-in-declaration-order", "P { x: f(\"x\"), y: f(\"y\"), z: f(\"z\") }", "x\ny\nz\n", "C09:struct-literal-order:declaration-order-literal"),
            ("fields-permuted", "P { z: f(\"z\"), x: f(\"x\"), y: f(\"y\") }", "z\nx\ny\n", "C09:struct-literal-order:permuted-literal-runs-in-declaration-order"),
            ("fields-reversed", "P { z: f(\"z\"), y: f(\"y\"), x: f(\"x\") }", "z\ny\nx\n", "C09:struct-literal-order:permuted-literal-runs-in-declaration-order"),
        ] {
            let src = format!("struct P {{ x: int32, y: int32, z: int32 }}\nfn f(tag: string) -> int32 {{ let _ = string_println(tag); 1 }}\nfn main() -> unit {{\n    let p = {};\n    let _ = string_println(int32_to_string(p.x + p.y + p.z));\n    ()\n}}\n", lit);
            let label = format!("struct-literal-order/{}", name);
            ctx.case(&label.clone(), |c| {
                if let Some((out, _term, _stderr)) = crate::exec::run_source(c, "C09", &label, &src, 1_000_000) {
                    if out == format!("{}3\n", expected) {
                        c.count("struct_literal_order_ok", 1);
                        c.count("tests", 1);
                    } else {
                        c.violation(sig.to_string(), format!("`{}` evaluates its fields as {:?}, written order is {:?}", lit, out, expected), json!({"label": label, "source": src, "stdout": out}));
                    }
                }
            });
        }
    }
    // 3. random effect-heavy programs
    let n = tier.pickn(200u64, 30_000u64) / ctx.nshards as u64 + 1;
    for j in 0..n {
        let mut rng = Rng::keyed(seed, "c09-gen", ctx.shard as u64, j);
        let mut f = Features::base();
        f.ticks = true;
        f.effectful_logic = true;
        f.failures = rng.chance(1, 3);
        f.n_fns = 3;
        let (prog, _) = generate(&mut rng, f);
        let label = format!("gen/{}/{}", ctx.shard, j);
        ctx.case(&label.clone(), |c| match diff::run_diff(c, &prog, &label, &opts) {
            Outcome::Agree { .. } => {
                c.count("tests", 1);
                c.count("random_programs_agree", 1);
            }
            Outcome::Inconclusive(r) => c.inconclusive(diff::msg_class(&r)),
            _ => {}
        });
    }
    // 4. go programs under many schedules
    let ng = tier.pickn(32u64, 600u64) / ctx.nshards as u64 + 1;
    let max_sched = tier.pick(40usize, 400usize);
    for j in 0..ng {
        let mut rng = Rng::keyed(seed, "c09-go", ctx.shard as u64, j);
        ctx.case(&format!("go/{}/{}", ctx.shard, j), |c| check_go_program(c, &mut rng, max_sched));
    }
    crate::capi::cleanup_scratch();
}
