//! Calibration against the ground-truth corpus: directories holding
//! `main.gom.go` (emitted Go) and `main.gom.out` (output recorded from real Go
//! by the repository's test harness).
//!
//! How `.out` was recorded (crates/compiler/src/tests/mod.rs,
//! `execute_with_go_run`): `go run main.go`; when the exit status is zero
//! the file holds stdout, otherwise it holds stderr only (which for a
//! panicking program ends with `exit status 2` printed by `go run`, and for a
//! program rejected by the compiler starts with `# command-line-arguments`),
//! with the temporary directory replaced by `${WORKDIR}`.

use crate::{Exit, RunConfig};
use std::path::Path;

#[derive(Debug, Default, Clone)]
pub struct CalibrationReport {
    /// directories with a main.gom.go
    pub programs: usize,
    /// vet: zero errors and zero unsupported
    pub vet_accepted: usize,
    /// goldens that real Go rejected (per .out) and vet rejects at the same lines
    pub vet_rejected_like_go: Vec<String>,
    /// programs with a recorded .out
    pub with_out: usize,
    /// run reproduced the recorded stdout byte for byte
    pub run_matched: usize,
    /// run reproduced the recorded panic report (modulo pc offsets)
    pub panic_matched: Vec<String>,
    /// programs using package time: run must (and did) answer Unsupported
    pub unsupported_as_expected: Vec<String>,
    pub failures: Vec<String>,
}

impl CalibrationReport {
    pub fn ok(&self) -> bool {
        self.failures.is_empty()
    }
}

/// Removes ` +0x1f` style pc offsets from a Go stack trace.
fn strip_pc_offsets(s: &str) -> String {
    let mut out = String::new();
    for line in s.split_inclusive('\n') {
        match line.find(" +0x") {
            Some(i) if line.starts_with('\t') => {
                out.push_str(&line[..i]);
                if line.ends_with('\n') {
                    out.push('\n');
                }
            }
            _ => out.push_str(line),
        }
    }
    out
}

pub fn calibrate(corpus_dir: &Path) -> CalibrationReport {
    let mut rep = CalibrationReport::default();
    let mut dirs: Vec<std::path::PathBuf> = match std::fs::read_dir(corpus_dir) {
        Ok(rd) => rd.filter_map(|e| e.ok()).map(|e| e.path()).filter(|p| p.join("main.gom.go").is_file()).collect(),
        Err(e) => {
            rep.failures.push(format!("cannot read {}: {}", corpus_dir.display(), e));
            return rep;
        }
    };
    dirs.sort();
    for d in dirs {
        let name = d.file_name().map(|n| n.to_string_lossy().into_owned()).unwrap_or_default();
        rep.programs += 1;
        let src = match std::fs::read_to_string(d.join("main.gom.go")) {
            Ok(s) => s,
            Err(e) => {
                rep.failures.push(format!("{}: read: {}", name, e));
                continue;
            }
        };
        let out = std::fs::read(d.join("main.gom.out")).ok();
        let file = match crate::parse(&src) {
            Ok(f) => f,
            Err(e) => {
                rep.failures.push(format!("{}: parse: {}", name, e));
                continue;
            }
        };
        let vet = crate::vet(&file);
        let out_text = out.as_ref().map(|o| String::from_utf8_lossy(o).into_owned());
        let go_rejected = out_text.as_ref().map_or(false, |t| t.starts_with("# command-line-arguments"));
        if go_rejected {
            // every recorded `./main.go:L:C: msg` line must have a vet error on line L
            let mut all = true;
            let mut any = false;
            for l in out_text.as_ref().unwrap().lines().skip(1) {
                let mut parts = l.splitn(4, ':');
                let (_f, line) = (parts.next(), parts.next());
                if let Some(Ok(line)) = line.map(|x| x.trim().parse::<u32>()) {
                    any = true;
                    if !vet.errors.iter().any(|e| e.line == line) {
                        all = false;
                    }
                }
            }
            if any && all && vet.unsupported.is_empty() {
                rep.vet_rejected_like_go.push(name.clone());
            } else {
                rep.failures.push(format!("{}: Go rejected this program ({:?}) but vet says {:?}", name, out_text, vet.errors));
            }
            if out.is_some() {
                rep.with_out += 1;
            }
            continue;
        }
        if vet.ok() {
            rep.vet_accepted += 1;
        } else {
            rep.failures.push(format!("{}: vet: errors {:?} unsupported {:?}", name, vet.errors, vet.unsupported));
            continue;
        }
        let out = match out {
            Some(o) => o,
            None => continue,
        };
        rep.with_out += 1;
        let res = crate::run(&file, &RunConfig::default());
        let uses_time = file.imports.iter().any(|i| i.path == "time");
        if uses_time {
            match &res.exit {
                Exit::Unsupported(_) => rep.unsupported_as_expected.push(name.clone()),
                other => rep.failures.push(format!("{}: uses package time but run gave {:?}", name, other)),
            }
            continue;
        }
        let out_text = String::from_utf8_lossy(&out).into_owned();
        if out_text.ends_with("exit status 2\n") && out_text.contains("goroutine 1 [running]:") {
            // recorded stderr of a panicking program
            let mine = format!("{}exit status 2\n", res.stderr);
            if matches!(res.exit, Exit::Panic { .. }) && strip_pc_offsets(&mine) == strip_pc_offsets(&out_text) {
                rep.panic_matched.push(name.clone());
            } else {
                rep.failures.push(format!("{}: panic report differs:\n--- recorded\n{}\n--- gomini ({:?})\n{}", name, out_text, res.exit, mine));
            }
            continue;
        }
        if res.exit == Exit::Ok && res.stdout == out {
            rep.run_matched += 1;
        } else {
            rep.failures.push(format!(
                "{}: run differs: exit {:?}\n--- recorded\n{}\n--- gomini\n{}\n--- stderr\n{}",
                name,
                res.exit,
                out_text,
                res.stdout_str(),
                res.stderr
            ));
        }
    }
    rep
}
