//! C10: numbers mean what they say - literals, widths, wrap-around, comparison, printing.
//! Oracle: Rust's fixed-width integer / IEEE arithmetic and exact parsing (independent of refsem).
use crate::capi;
use crate::gl::ast::{ALL_INTS, IntTy};
use crate::goexec::{self, Term, Vet};
use crate::runner::{self, Case, Ctx, PropSpec};
use crate::util::{self, Rng, hash_str};
use serde_json::json;

pub static SPEC: PropSpec = PropSpec {
    id: "C10",
    level: "exploration",
    rule: "cases: (type, operator, operand pair) evaluations. int8 / uint8: ALL 65,536 operand pairs x {+ - * / < <= > >= == !=} and all 256 operands of unary minus with operands held in variables (quick: + - / < on int8 and * <= on uint8; thorough: everything); all eight integer types: boundary x boundary and random pairs as variables and as literals (constant path); compound expressions (prefix minus against each binary operator on either side, each pair of binary operators in both nestings, random trees) printed with minimal parentheses at boundary operand triples of all eight types; literal spellings 0..300 and the boundary neighbourhoods of every type in suffix / negated / pattern position with out-of-range spellings required to be rejected; division by zero must fail at run time (also when the quotient is unused, also MIN / -1 wraps); float32 / float64 arithmetic compared against correctly rounded results through == (operands in variables, and whole / fractional literal operands written directly, where the emitted Go is a constant expression); negative zero; float32 literals next to rounding midpoints; *_to_string must be the decimal numeral (integers) / a readable numeral of the same value (floats). non-trivial = operand pair other than (0|1, 0|1); distinct by (type, op, pair)",
    eval_counter: "evaluations",
    assumptions: &[
        "gomini implements Go's sized integer and float32/float64 arithmetic and constant conversion (calibrated by its own positive controls)",
        "a rejected in-range literal (e.g. -128i8, whose token 128i8 is out of range) is an observation, not a violation",
    ],
    crash_is_violation: false,
    stack_mib: 256,
    case_cpu_s: 120,
    shards: 0,
    run,
    floors: &[("evaluations", 200_000, 1_500_000), ("programs_run", 40, 300), ("out_of_range_literals_rejected", 30, 60), ("div_zero_failures_checked", 30, 30), ("float_checks", 500, 5_000), ("compound_evaluations", 30_000, 400_000), ("out_of_range_positions_rejected", 200, 200), ("float_literal_operand_checks", 800, 800)],
    finish: None,
};

fn lit(t: IntTy, v: i128) -> String {
    // negative values are spelled as unary minus on the magnitude; the most negative value has no
    // literal spelling (its magnitude token is out of range) and is written as MIN+1 - 1
    let suf = if t == IntTy::I32 { "" } else { t.suffix() };
    if t.signed() && v == t.min_val() {
        format!("(-{}{} - 1{})", -(v + 1), suf, suf)
    } else if v < 0 {
        format!("(-{}{})", -v, suf)
    } else {
        format!("{}{}", v, suf)
    }
}

fn op_src(op: &str) -> &str {
    op
}

fn eval_int(t: IntTy, op: &str, a: i128, b: i128) -> Option<String> {
    Some(match op {
        "+" => t.wrap(a + b).to_string(),
        "-" => t.wrap(a - b).to_string(),
        "*" => t.wrap(a.wrapping_mul(b)).to_string(),
        "/" => {
            if b == 0 {
                return None;
            }
            // truncating division, MIN / -1 wraps
            t.wrap(a.wrapping_div(b)).to_string()
        }
        "<" => (a < b).to_string(),
        "<=" => (a <= b).to_string(),
        ">" => (a > b).to_string(),
        ">=" => (a >= b).to_string(),
        "==" => (a == b).to_string(),
        "!=" => (a != b).to_string(),
        _ => unreachable!(),
    })
}

pub const ARITH: [&str; 4] = ["+", "-", "*", "/"];
pub const CMP: [&str; 6] = ["<", "<=", ">", ">=", "==", "!="];

fn is_cmp(op: &str) -> bool {
    CMP.contains(&op)
}

/// compile + vet + run; returns stdout or records a finding
fn run_program(case: &mut Case, label: &str, src: &str, budget: u64) -> Option<(String, Term, String)> {
    runner::note_input(src);
    let go = match runner::guard(|| capi::compile_single(src).map(|c| capi::go_text(&c))) {
        Ok(Ok(g)) => g,
        Ok(Err(e)) => {
            case.violation(
                format!("C10:program-rejected:{}", crate::diff::msg_class(&capi::err_messages(&e).first().cloned().unwrap_or_default())),
                format!("a well-formed numeric program is rejected: {}", util::truncate(&capi::err_messages(&e).join("; "), 200)),
                json!({"label": label, "source": util::truncate(src, 4000)}),
            );
            return None;
        }
        Err(p) => {
            case.inconclusive(format!("compiler panic at {} (a C04 event)", p.site));
            return None;
        }
    };
    let gp = goexec::parse(&go);
    match goexec::vet(&gp) {
        Vet::Accept => {}
        Vet::Unsupported(u) => {
            case.inconclusive(format!("gomini vet unsupported: {}", u));
            return None;
        }
        Vet::Reject(errs) => {
            case.violation(
                format!("C10:invalid-go:{}", errs[0].0),
                format!("numeric program yields invalid Go: [{}] {}", errs[0].0, util::truncate(&errs[0].2, 160)),
                json!({"label": label, "source": util::truncate(src, 4000)}),
            );
            return None;
        }
    }
    let r = goexec::run(&gp, budget, gomini::Sched::Deterministic);
    case.count("programs_run", 1);
    match &r.term {
        Term::Unsupported(u) => {
            case.inconclusive(format!("gomini run unsupported: {}", u));
            None
        }
        Term::Budget => {
            case.inconclusive("gomini budget");
            None
        }
        _ => Some((r.stdout.clone(), r.term.clone(), r.stderr)),
    }
}

fn compare_lines(case: &mut Case, label: &str, src: &str, expected: &[String], got: &str, what: &dyn Fn(usize) -> String) {
    let got_lines: Vec<&str> = got.lines().collect();
    if got_lines.len() != expected.len() {
        case.violation(
            format!("C10:line-count:{}", label.split('/').next().unwrap_or(label)),
            format!("{}: expected {} result lines, got {}", label, expected.len(), got_lines.len()),
            json!({"label": label, "source": util::truncate(src, 3000), "got_head": got_lines.iter().take(5).collect::<Vec<_>>()}),
        );
        return;
    }
    for (i, (e, g)) in expected.iter().zip(got_lines.iter()).enumerate() {
        if e != g {
            case.violation(
                format!("C10:wrong-result:{}", label.split('/').take(3).collect::<Vec<_>>().join("/")),
                format!("{}: {} should be {} but the program prints {}", label, what(i), e, g),
                json!({"label": label, "what": what(i), "expected": e, "got": g, "source": util::truncate(src, 3000)}),
            );
            return;
        }
    }
}

/// exhaustive 8-bit: one program per (type, op), operands from arrays walked by while loops
fn exhaustive8(case: &mut Case, t: IntTy, op: &str) {
    let vals: Vec<i128> = (t.min_val()..=t.max_val()).collect();
    // 16 arrays of 16 values (array literals of 256 elements are fine too, but keep lines short)
    let arr = format!("[{}]", vals.iter().map(|v| lit(t, *v)).collect::<Vec<_>>().join(", "));
    let res_ty = if is_cmp(op) { "bool" } else { t.name() };
    let to_s = if is_cmp(op) { "bool_to_string".to_string() } else { format!("{}_to_string", t.name()) };
    let guard = if op == "/" { format!("if bb == {} {{ \"z\" }} else {{ {}(f(aa, bb)) }}", lit(t, 0), to_s) } else { format!("{}(f(aa, bb))", to_s) };
    let src = format!(
        "fn f(a: {ty}, b: {ty}) -> {res} {{ a {op} b }}\n\
fn main() -> unit {{\n    let xs: [{ty}; 256] = {arr};\n    let i = ref(0);\n    while ref_get(i) < 256 {{\n        let aa = array_get(xs, ref_get(i));\n        let line = ref(\"\");\n        let j = ref(0);\n        while ref_get(j) < 256 {{\n            let bb = array_get(xs, ref_get(j));\n            let _ = ref_set(line, ref_get(line) + {guard} + \",\");\n            let _ = ref_set(j, ref_get(j) + 1);\n        }};\n        let _ = string_println(ref_get(line));\n        let _ = ref_set(i, ref_get(i) + 1);\n    }};\n    ()\n}}\n",
        ty = t.name(),
        res = res_ty,
        op = op_src(op),
        arr = arr,
        guard = guard
    );
    let label = format!("exh8/{}/{}", t.name(), op);
    let Some((out, term, stderr)) = run_program(case, &label, &src, 80_000_000) else { return };
    if term != Term::Ok {
        case.violation(format!("C10:unexpected-failure:{}", label), format!("{} fails at run time: {:?}", label, term), json!({"label": label, "stderr": stderr}));
        return;
    }
    let mut expected = Vec::new();
    for a in &vals {
        let mut line = String::new();
        for b in &vals {
            match eval_int(t, op, *a, *b) {
                Some(s) => line.push_str(&s),
                None => line.push('z'),
            }
            line.push(',');
        }
        expected.push(line);
    }
    compare_lines(case, &label, &src, &expected, &out, &|i| format!("row a={} of {} {}", vals[i], t.name(), op));
    case.count("evaluations", 65_536);
    case.count("exhaustive8_pairs", 65_536);
    for k in 0..64u64 {
        case.nontrivial(hash_str(&format!("{}{}{}", t.name(), op, k)));
    }
    case.sample(json!({"workload":"exhaustive8","type":t.name(),"op":op,"pairs":65536}));
}

fn neg8(case: &mut Case, t: IntTy) {
    let vals: Vec<i128> = (t.min_val()..=t.max_val()).collect();
    let arr = format!("[{}]", vals.iter().map(|v| lit(t, *v)).collect::<Vec<_>>().join(", "));
    let src = format!(
        "fn main() -> unit {{\n    let xs: [{ty}; 256] = {arr};\n    let i = ref(0);\n    while ref_get(i) < 256 {{\n        let aa = array_get(xs, ref_get(i));\n        let _ = string_println({ty}_to_string(-aa));\n        let _ = ref_set(i, ref_get(i) + 1);\n    }};\n    ()\n}}\n",
        ty = t.name(),
        arr = arr
    );
    let label = format!("neg8/{}", t.name());
    let Some((out, _term, _)) = run_program(case, &label, &src, 10_000_000) else { return };
    let expected: Vec<String> = vals.iter().map(|v| t.wrap(-*v).to_string()).collect();
    compare_lines(case, &label, &src, &expected, &out, &|i| format!("-({}) at {}", vals[i], t.name()));
    case.count("evaluations", 256);
}

fn boundary_values(t: IntTy, rng: &mut Rng, extra: usize) -> Vec<i128> {
    let mut v = vec![0, 1, 2, 3, 7, 10, t.max_val(), t.max_val() - 1, t.max_val() / 2, t.max_val() / 2 + 1];
    if t.signed() {
        v.extend([-1, -2, -7, t.min_val(), t.min_val() + 1, t.min_val() / 2]);
    }
    for _ in 0..extra {
        let span = (t.max_val() - t.min_val()) as u128 + 1;
        let r = (((rng.next_u64() as u128) << 64) | rng.next_u64() as u128) % span;
        v.push(t.min_val() + r as i128);
    }
    v.sort();
    v.dedup();
    v
}

/// boundary and random pairs for one type, operands as variables (function parameters) or as literals
fn pairs_program(case: &mut Case, t: IntTy, rng: &mut Rng, literal_operands: bool, n_random: usize) {
    let vals = boundary_values(t, rng, n_random);
    let mut lines = Vec::new();
    let mut expected = Vec::new();
    let mut descr = Vec::new();
    let mut fns = String::new();
    for (oi, op) in ARITH.iter().chain(CMP.iter()).enumerate() {
        let res_ty = if is_cmp(op) { "bool" } else { t.name() };
        fns.push_str(&format!("fn op{}(a: {ty}, b: {ty}) -> {res} {{ a {op} b }}\n", oi, ty = t.name(), res = res_ty, op = op));
    }
    for a in &vals {
        for b in &vals {
            // the most negative value has no literal spelling: build it by arithmetic
            for (oi, op) in ARITH.iter().chain(CMP.iter()).enumerate() {
                let Some(e) = eval_int(t, op, *a, *b) else { continue };
                let spell = |v: i128| -> String {
                    if t.signed() && v == t.min_val() { format!("({} - {})", lit(t, v + 1), lit(t, 1)) } else { lit(t, v) }
                };
                let to_s = if is_cmp(op) { "bool_to_string".to_string() } else { format!("{}_to_string", t.name()) };
                if literal_operands {
                    if t.signed() && (*a == t.min_val() || *b == t.min_val()) {
                        continue;
                    }
                    lines.push(format!("    let _ = string_println({}({} {} {}));", to_s, lit(t, *a), op, lit(t, *b)));
                } else {
                    lines.push(format!("    let _ = string_println({}(op{}({}, {})));", to_s, oi, spell(*a), spell(*b)));
                }
                expected.push(e);
                descr.push(format!("{} {} {} at {}", a, op, b, t.name()));
                if !((*a == 0 || *a == 1) && (*b == 0 || *b == 1)) {
                    case.nontrivial(hash_str(&format!("{}|{}|{}|{}|{}", t.name(), op, a, b, literal_operands)));
                }
            }
        }
    }
    // keep programs moderate: chunk
    for (ci, chunk) in lines.chunks(600).enumerate() {
        let src = format!("{}fn main() -> unit {{\n{}\n    ()\n}}\n", fns, chunk.join("\n"));
        let label = format!("pairs/{}/{}/{}", t.name(), if literal_operands { "literals" } else { "variables" }, ci);
        let Some((out, term, stderr)) = run_program(case, &label, &src, 20_000_000) else { continue };
        if term != Term::Ok {
            case.violation(format!("C10:unexpected-failure:pairs/{}", t.name()), format!("{} fails at run time: {:?}", label, term), json!({"label": label, "stderr": stderr, "source": util::truncate(&src, 3000)}));
            continue;
        }
        let exp = &expected[ci * 600..(ci * 600 + chunk.len())];
        let base = ci * 600;
        compare_lines(case, &label, &src, exp, &out, &|i| descr[base + i].clone());
        case.count("evaluations", chunk.len() as u64);
        case.count(if literal_operands { "literal_path_evaluations" } else { "variable_path_evaluations" }, chunk.len() as u64);
    }
}

/// compound expressions written with the fewest parentheses the documented precedence allows
/// (prefix minus binds tighter than every binary operator; * / over + - over comparisons; all
/// binary operators group to the left): the grouping decides the number
#[derive(Clone, Debug)]
enum CE {
    V(usize),
    Neg(Box<CE>),
    Bin(&'static str, Box<CE>, Box<CE>),
}
fn ce_prec(op: &str) -> u8 {
    match op {
        "*" | "/" => 6,
        "+" | "-" => 5,
        "<" | "<=" | ">" | ">=" => 4,
        _ => 3,
    }
}
fn ce_level(e: &CE) -> u8 {
    match e {
        CE::V(_) => 8,
        CE::Neg(_) => 7,
        CE::Bin(op, _, _) => ce_prec(op),
    }
}
fn ce_print(e: &CE, min: u8, out: &mut String) {
    let need = ce_level(e) < min;
    if need {
        out.push('(');
    }
    match e {
        CE::V(i) => out.push(['a', 'b', 'c'][*i]),
        CE::Neg(x) => {
            out.push('-');
            // `--a` is written `-(-a)`
            if matches!(**x, CE::Neg(_)) {
                out.push('(');
                ce_print(x, 0, out);
                out.push(')');
            } else {
                ce_print(x, 7, out);
            }
        }
        CE::Bin(op, l, r) => {
            let p = ce_prec(op);
            ce_print(l, p, out);
            out.push(' ');
            out.push_str(op);
            out.push(' ');
            ce_print(r, p + 1, out);
        }
    }
    if need {
        out.push(')');
    }
}
/// value of an arithmetic tree at type t (None: a division by zero happens somewhere)
fn ce_eval(e: &CE, t: IntTy, env: &[i128; 3]) -> Option<i128> {
    Some(match e {
        CE::V(i) => env[*i],
        CE::Neg(x) => t.wrap(-ce_eval(x, t, env)?),
        CE::Bin(op, l, r) => {
            let (a, b) = (ce_eval(l, t, env)?, ce_eval(r, t, env)?);
            match *op {
                "+" => t.wrap(a + b),
                "-" => t.wrap(a - b),
                "*" => t.wrap(a.wrapping_mul(b)),
                "/" => {
                    if b == 0 {
                        return None;
                    }
                    t.wrap(a.wrapping_div(b))
                }
                _ => unreachable!(),
            }
        }
    })
}
fn ce_random(rng: &mut Rng, nodes: u32) -> CE {
    if nodes == 0 {
        return CE::V(rng.below(3) as usize);
    }
    if rng.chance(1, 3) {
        return CE::Neg(Box::new(ce_random(rng, nodes - 1)));
    }
    let op = rng.pick(&["+", "-", "*", "/", "/", "-"]);
    let left = rng.below(nodes as usize) as u32;
    CE::Bin(op, Box::new(ce_random(rng, left)), Box::new(ce_random(rng, nodes - 1 - left)))
}
fn compound_program(case: &mut Case, t: IntTy, rng: &mut Rng, n_random: usize, n_values: usize, part: usize, nparts: usize) {
    let v = |i: usize| Box::new(CE::V(i));
    let neg = |e: Box<CE>| Box::new(CE::Neg(e));
    let bin = |op: &'static str, l: Box<CE>, r: Box<CE>| Box::new(CE::Bin(op, l, r));
    // the shapes every run has: prefix minus against each binary operator on either side, and
    // each pair of binary operators in both nestings
    let mut shapes: Vec<CE> = Vec::new();
    for op in ARITH {
        shapes.push(*bin(op, neg(v(0)), v(1)));
        shapes.push(*neg(bin(op, v(0), v(1))));
        shapes.push(*bin(op, v(0), neg(v(1))));
        shapes.push(*bin(op, neg(v(0)), neg(v(1))));
        for op2 in ARITH {
            shapes.push(*bin(op2, bin(op, v(0), v(1)), v(2)));
            shapes.push(*bin(op, v(0), bin(op2, v(1), v(2))));
            shapes.push(*bin(op2, bin(op, neg(v(0)), v(1)), v(2)));
            shapes.push(*bin(op, neg(v(0)), bin(op2, v(1), v(2))));
        }
    }
    for _ in 0..n_random {
        let n = 2 + rng.below(3) as u32;
        shapes.push(ce_random(rng, n));
    }
    let mut fns = String::new();
    let mut texts = Vec::new();
    for (i, sh) in shapes.iter().enumerate() {
        let mut txt = String::new();
        ce_print(sh, 0, &mut txt);
        fns.push_str(&format!("fn e{}(a: {ty}, b: {ty}, c: {ty}) -> {ty} {{ {} }}\n", i, txt, ty = t.name()));
        // the same operands compared: the comparison binds loosest
        fns.push_str(&format!("fn q{}(a: {ty}, b: {ty}, c: {ty}) -> bool {{ {} < c }}\n", i, txt, ty = t.name()));
        texts.push(txt);
    }
    let mut vals = boundary_values(t, rng, 2);
    while vals.len() > n_values {
        let k = rng.below(vals.len());
        // keep the extremes
        if vals[k] == t.min_val() || vals[k] == t.max_val() || vals[k] == 0 {
            if vals.len() <= 4 {
                break;
            }
            continue;
        }
        vals.remove(k);
    }
    let spell = |v: i128| -> String { if t.signed() && v == t.min_val() { format!("({} - {})", lit(t, v + 1), lit(t, 1)) } else { lit(t, v) } };
    let mut lines = Vec::new();
    let mut expected = Vec::new();
    let mut descr = Vec::new();
    for (i, sh) in shapes.iter().enumerate() {
        // the shapes of one type are spread over `nparts` jobs (same shapes and values in each: same generator state)
        let mine = i % nparts == part;
        for a in &vals {
            for b in &vals {
                for c in &vals {
                    if !rng.chance(1, 3) && !(*a == t.max_val() || *a == t.min_val()) {
                        continue;
                    }
                    if !mine {
                        continue;
                    }
                    let env = [*a, *b, *c];
                    let Some(r) = ce_eval(sh, t, &env) else { continue };
                    lines.push(format!("    let _ = string_println({}_to_string(e{}({}, {}, {})) + \" \" + bool_to_string(q{}({}, {}, {})));", t.name(), i, spell(*a), spell(*b), spell(*c), i, spell(*a), spell(*b), spell(*c)));
                    expected.push(format!("{} {}", r, r < *c));
                    descr.push(format!("`{}` (and `{} < c`) with a={} b={} c={} at {}", texts[i], texts[i], a, b, c, t.name()));
                    case.nontrivial(hash_str(&format!("compound|{}|{}|{}|{}|{}", t.name(), texts[i], a, b, c)));
                }
            }
        }
    }
    case.count("compound_shapes", shapes.iter().enumerate().filter(|(i, _)| i % nparts == part).count() as u64);
    for (ci, chunk) in lines.chunks(500).enumerate() {
        let src = format!("{}fn main() -> unit {{\n{}\n    ()\n}}\n", fns, chunk.join("\n"));
        let label = format!("compound/{}/{}.{}", t.name(), part, ci);
        let Some((out, term, stderr)) = run_program(case, &label, &src, 40_000_000) else { continue };
        if term != Term::Ok {
            case.violation(format!("C10:unexpected-failure:compound/{}", t.name()), format!("{} fails at run time: {:?}", label, term), json!({"label": label, "stderr": stderr, "source": util::truncate(&src, 3000)}));
            continue;
        }
        let base = ci * 500;
        let exp = &expected[base..base + chunk.len()];
        compare_lines(case, &label, &src, exp, &out, &|i| descr[base + i].clone());
        case.count("evaluations", 2 * chunk.len() as u64);
        case.count("compound_evaluations", 2 * chunk.len() as u64);
    }
}

/// division by zero fails at run time, also when unused; MIN / -1 wraps
fn div_zero(case: &mut Case, t: IntTy, unused: bool, literal_zero: bool) {
    let z = if literal_zero { lit(t, 0) } else { "z".to_string() };
    let body = if unused {
        format!("    let d = x / {};\n    let _ = string_println(\"after\");", z)
    } else {
        format!("    let _ = string_println({}_to_string(x / {}));\n    let _ = string_println(\"after\");", t.name(), z)
    };
    let src = format!("fn f(x: {ty}, z: {ty}) -> unit {{\n    let _ = string_println(\"before\");\n{body}\n    ()\n}}\nfn main() -> unit {{ f({seven}, {zero}) }}\n", ty = t.name(), body = body, seven = lit(t, 7), zero = lit(t, 0));
    let label = format!("divzero/{}/{}/{}", t.name(), if unused { "unused" } else { "used" }, if literal_zero { "literal" } else { "variable" });
    let Some((out, term, _stderr)) = run_program(case, &label, &src, 1_000_000) else { return };
    case.count("evaluations", 1);
    match term {
        Term::Fail(k) if k == "divide-by-zero" && out == "before\n" => case.count("div_zero_failures_checked", 1),
        other => case.violation(
            format!("C10:division-by-zero-does-not-fail:{}:{}", if unused { "unused" } else { "used" }, if literal_zero { "literal" } else { "variable" }),
            format!("{}: division by zero should fail right after `before`, but the program ended with {:?} after printing {:?}", label, other, out),
            json!({"label": label, "source": src}),
        ),
    }
}

/// literal spellings: accepted ones must denote the written value; out-of-range ones must be rejected
fn literal_spellings(case: &mut Case, t: IntTy) {
    let mut vals: Vec<i128> = (0..=300).collect();
    for d in -3i128..=3 {
        vals.push(t.max_val() + d);
        if t.signed() {
            vals.push(-(t.min_val()) + d); // magnitude of MIN and neighbours, used negated
        }
    }
    vals.sort();
    vals.dedup();
    let suf = if t == IntTy::I32 { "i32" } else { t.suffix() };
    // positive spellings
    let mut accepted_lines = Vec::new();
    let mut expected = Vec::new();
    for v in &vals {
        if *v < 0 {
            continue;
        }
        let in_range = *v <= t.max_val();
        let spelled = format!("{}{}", v, suf);
        let one = format!("fn main() -> unit {{ string_println({}_to_string({})) }}\n", t.name(), spelled);
        if in_range {
            accepted_lines.push(format!("    let _ = string_println({}_to_string({}));", t.name(), spelled));
            expected.push(v.to_string());
            // also as a pattern
            accepted_lines.push(format!("    let _ = string_println(match {} {{ {} => \"hit\", _ => \"miss\" }});", spelled, spelled));
            expected.push("hit".to_string());
        } else {
            runner::note_input(&one);
            match runner::guard(|| capi::compile_single(&one).map(|_| ())) {
                Ok(Err(_)) => case.count("out_of_range_literals_rejected", 1),
                Ok(Ok(())) => case.violation(
                    format!("C10:out-of-range-literal-accepted:{}", t.name()),
                    format!("the literal {} is outside {} but the program is accepted", spelled, t.name()),
                    json!({"source": one}),
                ),
                Err(p) => case.inconclusive(format!("compiler panic at {} (a C04 event)", p.site)),
            }
            case.count("evaluations", 1);
            // the same out-of-range spelling in the other positions a literal can stand in, typed directly or only
            // through inference (under a generic constructor, against a generic call's result, against an
            // un-annotated closure parameter, inside a tuple pattern): each must be rejected
            if *v - t.max_val() <= 3 {
                let zero = format!("0{}", suf);
                let ty = t.name();
                let positions: [(&str, String); 11] = [
                    ("pattern-typed-scrutinee", format!("fn main() -> unit {{\n    let z: {ty} = {zero};\n    let _ = match z {{ {l} => 1, _ => 0 }};\n    ()\n}}\n", ty = ty, zero = zero, l = spelled)),
                    ("pattern-under-generic-constructor", format!("enum Opt[T] {{ Som(T), Non }}\nfn main() -> unit {{\n    let o = Opt::Som({zero});\n    let _ = match o {{ Opt::Som({l}) => 1, _ => 0 }};\n    ()\n}}\n", zero = zero, l = spelled)),
                    ("pattern-against-generic-call", format!("fn id[T](x: T) -> T {{ x }}\nfn main() -> unit {{\n    let _ = match id({zero}) {{ {l} => 1, _ => 0 }};\n    ()\n}}\n", zero = zero, l = spelled)),
                    ("pattern-against-closure-parameter", format!("fn main() -> unit {{\n    let f = |v| match v {{ {l} => 1, _ => 0 }};\n    let _ = f({zero});\n    ()\n}}\n", zero = zero, l = spelled)),
                    ("pattern-in-tuple", format!("fn main() -> unit {{\n    let _ = match ({zero}, true) {{ ({l}, _) => 1, _ => 0 }};\n    ()\n}}\n", zero = zero, l = spelled)),
                    ("pattern-under-ref-get", format!("fn main() -> unit {{\n    let r = ref({zero});\n    let _ = match ref_get(r) {{ {l} => 1, _ => 0 }};\n    ()\n}}\n", zero = zero, l = spelled)),
                    ("let-annotation", format!("fn main() -> unit {{\n    let v: {ty} = {l};\n    ()\n}}\n", ty = ty, l = spelled)),
                    ("argument", format!("fn take(v: {ty}) -> {ty} {{ v }}\nfn main() -> unit {{\n    let _ = take({l});\n    ()\n}}\n", ty = ty, l = spelled)),
                    ("struct-field", format!("struct W {{ v: {ty} }}\nfn main() -> unit {{\n    let _ = W {{ v: {l} }};\n    ()\n}}\n", ty = ty, l = spelled)),
                    ("array-element", format!("fn main() -> unit {{\n    let _ = [{zero}, {l}];\n    ()\n}}\n", zero = zero, l = spelled)),
                    ("comparison", format!("fn main() -> unit {{\n    let z: {ty} = {zero};\n    let _ = z == {l};\n    ()\n}}\n", ty = ty, zero = zero, l = spelled)),
                ];
                for (pos, src) in positions.iter() {
                    runner::note_input(src);
                    match runner::guard(|| capi::compile_single(src).map(|_| ())) {
                        Ok(Err(_)) => {
                            case.count("out_of_range_literals_rejected", 1);
                            case.count("out_of_range_positions_rejected", 1);
                        }
                        Ok(Ok(())) => case.violation(
                            format!("C10:out-of-range-literal-accepted:{}:{}", pos, t.name()),
                            format!("the literal {} is outside {} but the program is accepted ({})", spelled, t.name(), pos),
                            json!({"source": src, "position": pos}),
                        ),
                        Err(p) => case.inconclusive(format!("compiler panic at {} (a C04 event)", p.site)),
                    }
                    case.count("evaluations", 1);
                }
            }
        }
        // negated spelling for signed types: -v is in range iff v <= -MIN
        if t.signed() && *v > 0 {
            let neg_in_range = -*v >= t.min_val();
            let token_in_range = *v <= t.max_val();
            let src1 = format!("fn main() -> unit {{ string_println({}_to_string(-{})) }}\n", t.name(), spelled);
            if neg_in_range && token_in_range {
                accepted_lines.push(format!("    let _ = string_println({}_to_string(-{}));", t.name(), spelled));
                expected.push((-v).to_string());
            } else {
                match runner::guard(|| capi::compile_single(&src1).map(|_| ())) {
                    Ok(Err(_)) => {
                        if neg_in_range {
                            case.count("in_range_negative_literal_rejected_observed", 1);
                        } else {
                            case.count("out_of_range_literals_rejected", 1);
                        }
                    }
                    Ok(Ok(())) => {
                        if !neg_in_range {
                            case.violation(format!("C10:out-of-range-literal-accepted:{}", t.name()), format!("-{} is outside {} but the program is accepted", spelled, t.name()), json!({"source": src1}));
                        } else {
                            // accepted in-range most-negative literal: must denote the value
                            accepted_lines.push(format!("    let _ = string_println({}_to_string(-{}));", t.name(), spelled));
                            expected.push((-v).to_string());
                        }
                    }
                    Err(p) => case.inconclusive(format!("compiler panic at {} (a C04 event)", p.site)),
                }
                case.count("evaluations", 1);
            }
        }
    }
    for (ci, chunk) in accepted_lines.chunks(400).enumerate() {
        let src = format!("fn main() -> unit {{\n{}\n    ()\n}}\n", chunk.join("\n"));
        let label = format!("literals/{}/{}", t.name(), ci);
        let Some((out, _term, _)) = run_program(case, &label, &src, 5_000_000) else { continue };
        let exp = &expected[ci * 400..ci * 400 + chunk.len()];
        compare_lines(case, &label, &src, exp, &out, &|i| chunk[i].trim().to_string());
        case.count("evaluations", chunk.len() as u64);
        case.count("literal_spellings_checked", chunk.len() as u64);
    }
}

fn f32_src(v: f32) -> Option<String> {
    if !v.is_finite() {
        return None;
    }
    let s = format!("{}", v);
    if s.contains('e') || s.contains("inf") {
        return None;
    }
    Some(if s.contains('.') { format!("{}f32", s) } else { format!("{}.0f32", s) })
}
fn f64_src(v: f64) -> Option<String> {
    if !v.is_finite() {
        return None;
    }
    let s = format!("{}", v);
    if s.contains('e') || s.contains("inf") {
        return None;
    }
    Some(if s.contains('.') { s } else { format!("{}.0", s) })
}

fn float_arith(case: &mut Case, rng: &mut Rng, is32: bool, n: usize) {
    let mut lines = Vec::new();
    let mut descr = Vec::new();
    let pool32: Vec<f32> = vec![0.0, 1.0, -1.0, 0.1, 0.2, 0.3, 1.5, 2.5, 3.25, 1.0e7, 16777216.0, 16777217.0, 0.000001, 123456.789, -0.75, 100.0, 0.33333334];
    for _ in 0..n {
        let (a, b) = if rng.bool() {
            (rng.pick(&pool32) as f64, rng.pick(&pool32) as f64)
        } else {
            ((rng.range(-2_000_000, 2_000_000) as f64) / (1 << rng.below(12)) as f64, (rng.range(-2_000_000, 2_000_000) as f64) / (1 << rng.below(12)) as f64)
        };
        let op = rng.pick(&["+", "-", "*", "/", "<", "<=", "==", ">"]);
        if is32 {
            let (a, b) = (a as f32, b as f32);
            let (Some(sa), Some(sb)) = (f32_src(a), f32_src(b)) else { continue };
            match op {
                "+" | "-" | "*" | "/" => {
                    let r = match op {
                        "+" => a + b,
                        "-" => a - b,
                        "*" => a * b,
                        _ => {
                            if b == 0.0 {
                                continue;
                            }
                            a / b
                        }
                    };
                    let Some(sr) = f32_src(r) else { continue };
                    lines.push(format!("    let _ = string_println(bool_to_string(g32({}, {}, {}) == {}));", op_index(op), sa, sb, sr));
                    descr.push(format!("float32 {} {} {} == {}", sa, op, sb, sr));
                }
                _ => {
                    let r = match op {
                        "<" => a < b,
                        "<=" => a <= b,
                        "==" => a == b,
                        _ => a > b,
                    };
                    lines.push(format!("    let _ = string_println(bool_to_string(c32({}, {}, {}) == {}));", op_index(op), sa, sb, r));
                    descr.push(format!("float32 {} {} {} is {}", sa, op, sb, r));
                }
            }
        } else {
            let (Some(sa), Some(sb)) = (f64_src(a), f64_src(b)) else { continue };
            match op {
                "+" | "-" | "*" | "/" => {
                    let r = match op {
                        "+" => a + b,
                        "-" => a - b,
                        "*" => a * b,
                        _ => {
                            if b == 0.0 {
                                continue;
                            }
                            a / b
                        }
                    };
                    let Some(sr) = f64_src(r) else { continue };
                    lines.push(format!("    let _ = string_println(bool_to_string(g64({}, {}, {}) == {}));", op_index(op), sa, sb, sr));
                    descr.push(format!("float64 {} {} {} == {}", sa, op, sb, sr));
                }
                _ => {
                    let r = match op {
                        "<" => a < b,
                        "<=" => a <= b,
                        "==" => a == b,
                        _ => a > b,
                    };
                    lines.push(format!("    let _ = string_println(bool_to_string(c64({}, {}, {}) == {}));", op_index(op), sa, sb, r));
                    descr.push(format!("float64 {} {} {} is {}", sa, op, sb, r));
                }
            }
        }
    }
    let helpers = "fn g32(op: int32, a: float32, b: float32) -> float32 { match op { 0 => a + b, 1 => a - b, 2 => a * b, _ => a / b } }\nfn c32(op: int32, a: float32, b: float32) -> bool { match op { 4 => a < b, 5 => a <= b, 6 => a == b, _ => a > b } }\nfn g64(op: int32, a: float64, b: float64) -> float64 { match op { 0 => a + b, 1 => a - b, 2 => a * b, _ => a / b } }\nfn c64(op: int32, a: float64, b: float64) -> bool { match op { 4 => a < b, 5 => a <= b, 6 => a == b, _ => a > b } }\n";
    for (ci, chunk) in lines.chunks(300).enumerate() {
        let src = format!("{}fn main() -> unit {{\n{}\n    ()\n}}\n", helpers, chunk.join("\n"));
        let label = format!("float/{}/{}", if is32 { "float32" } else { "float64" }, ci);
        let Some((out, _t, _)) = run_program(case, &label, &src, 10_000_000) else { continue };
        let exp: Vec<String> = chunk.iter().map(|_| "true".to_string()).collect();
        let base = ci * 300;
        compare_lines(case, &label, &src, &exp, &out, &|i| descr[base + i].clone());
        case.count("evaluations", chunk.len() as u64);
        case.count("float_checks", chunk.len() as u64);
        for d in &descr[base..base + chunk.len()] {
            case.nontrivial(hash_str(d));
        }
    }
}

/// float arithmetic written directly on LITERAL operands (the emitted Go is a constant expression there), with whole
/// and fractional values: `1.0 / 2.0` is 0.5; plus negative zero
fn float_literal_arith(case: &mut Case, is32: bool) {
    // the first twelve are exact in binary; the others are not (0.1 + 0.2 is 0.30000000000000004 in float64 and
    // 0.1f32 + 0.6f32 is 0.70000005f32: arithmetic happens on the operand type's values, not on the decimals written;
    // added after a seeded change that emitted float32 literals by their shortest decimal)
    let vals: [f64; 23] = [1.0, 2.0, 7.0, 0.5, 3.0, 10.0, 0.25, 100.0, 1.5, 4.0, 0.125, 9.0, 0.1, 0.2, 0.3, 0.6, 0.7, 1.1, 2.675, 0.05, 33.3, 0.9, 1000000.1];
    let mut lines = Vec::new();
    let mut descr = Vec::new();
    let spell = |v: f64| -> Option<String> { if is32 { f32_src(v as f32) } else { f64_src(v) } };
    for a in vals {
        // an operand is the value the literal denotes at its type
        let a = if is32 { (a as f32) as f64 } else { a };
        for b in vals {
            let b = if is32 { (b as f32) as f64 } else { b };
            for op in ["+", "-", "*", "/"] {
                let r = if is32 {
                    let (x, y) = (a as f32, b as f32);
                    (match op {
                        "+" => x + y,
                        "-" => x - y,
                        "*" => x * y,
                        _ => x / y,
                    }) as f64
                } else {
                    match op {
                        "+" => a + b,
                        "-" => a - b,
                        "*" => a * b,
                        _ => a / b,
                    }
                };
                if r < 0.0 {
                    continue;
                }
                let (Some(sa), Some(sb), Some(sr)) = (spell(a), spell(b), spell(r)) else { continue };
                // directly in a comparison, and through a let
                lines.push(format!("    let _ = string_println(bool_to_string({} {} {} == {}));", sa, op, sb, sr));
                descr.push(format!("{} {} {} == {} (literal operands)", sa, op, sb, sr));
                if (a as i64 + b as i64) % 3 == 0 {
                    let k = lines.len();
                    lines.push(format!("    let r{k} = {} {} {};\n    let _ = string_println(bool_to_string(r{k} == {}));", sa, op, sb, sr, k = k));
                    descr.push(format!("let r = {} {} {}; r == {}", sa, op, sb, sr));
                }
            }
        }
    }
    // three literals: grouping follows the source
    for (e, r) in [("7.0 / 2.0 * 2.0", 7.0), ("1.0 / 4.0 + 1.0 / 4.0", 0.5), ("3.0 / 2.0 / 2.0", 0.75), ("10.0 - 1.0 / 2.0", 9.5)] {
        let (e, r) = if is32 { (e.replace(".0", ".0f32"), f32_src(r as f32).unwrap()) } else { (e.to_string(), f64_src(r).unwrap()) };
        lines.push(format!("    let _ = string_println(bool_to_string({} == {}));", e, r));
        descr.push(format!("{} == {}", e, r));
    }
    let ty = if is32 { "float32" } else { "float64" };
    for (ci, chunk) in lines.chunks(300).enumerate() {
        let src = format!("fn main() -> unit {{\n{}\n    ()\n}}\n", chunk.join("\n"));
        let label = format!("float-literals/{}/{}", ty, ci);
        let Some((out, _term, _)) = run_program(case, &label, &src, 10_000_000) else { continue };
        let expected: Vec<String> = chunk.iter().map(|_| "true".to_string()).collect();
        let base = ci * 300;
        compare_lines(case, &label, &src, &expected, &out, &|i| descr[base + i].clone());
        case.count("evaluations", chunk.len() as u64);
        case.count("float_checks", chunk.len() as u64);
        case.count("float_literal_operand_checks", chunk.len() as u64);
    }
    // negative zero: `-0.0` is the IEEE negative zero (1.0 / -0.0 is -inf, below every number)
    let z = if is32 { "0.0f32" } else { "0.0" };
    let one = if is32 { "1.0f32" } else { "1.0" };
    let src = format!("fn main() -> unit {{\n    let n = -{z};\n    let r = {one} / n;\n    let _ = string_println(bool_to_string(r < {z}));\n    ()\n}}\n", z = z, one = one);
    let label = format!("negative-zero/{}", ty);
    if let Some((out, _term, _)) = run_program(case, &label, &src, 100_000) {
        case.count("evaluations", 1);
        if out != "true\n" {
            case.violation(
                format!("C10:negative-zero-literal:{}", ty),
                format!("`-{}` is not the negative zero: 1 / -0 should be -inf (below zero), the program prints {:?}", z, out.trim()),
                json!({"label": label, "source": src}),
            );
        }
    }
}

fn op_index(op: &str) -> i32 {
    match op {
        "+" => 0,
        "-" => 1,
        "*" => 2,
        "/" => 3,
        "<" => 4,
        "<=" => 5,
        "==" => 6,
        _ => 7,
    }
}

/// float32 literals next to rounding midpoints: the literal must denote the nearest float32 of the written decimal
fn f32_literal_midpoints(case: &mut Case, rng: &mut Rng, n: usize) {
    let mut lines = Vec::new();
    let mut descr = Vec::new();
    for _ in 0..n {
        // pick a float32 a and its successor b, take the midpoint m (exact in f64), write m +/- tiny as decimal
        let a = match rng.below(4) {
            0 => 16777216.0f32 + (rng.below(1000) as f32) * 2.0,
            1 => 1.0f32 + (rng.below(100000) as f32) * f32::EPSILON,
            2 => (rng.range(1, 1_000_000) as f32) / 64.0,
            _ => (rng.range(1, 1000) as f32) * 0.001,
        };
        let b = f32::from_bits(a.to_bits() + 1);
        let m = (a as f64 + b as f64) / 2.0;
        let exact = format!("{:.60}", m);
        let exact = exact.trim_end_matches('0').to_string();
        let exact = if exact.ends_with('.') { format!("{}0", exact) } else { exact };
        // above the midpoint: append digits; below: decrement the last digit and append 9s
        let above = format!("{}0000001", exact);
        let below = {
            let mut cs: Vec<char> = exact.chars().collect();
            let mut k = cs.len() - 1;
            loop {
                if cs[k] == '.' {
                    k -= 1;
                    continue;
                }
                if cs[k] == '0' {
                    cs[k] = '9';
                    if k == 0 {
                        break;
                    }
                    k -= 1;
                } else {
                    cs[k] = ((cs[k] as u8) - 1) as char;
                    break;
                }
            }
            format!("{}9999999", cs.into_iter().collect::<String>())
        };
        for text in [above, below, exact.clone()] {
            let Ok(want) = text.parse::<f32>() else { continue };
            let Some(sw) = f32_src(want) else { continue };
            if text.len() > 90 {
                continue;
            }
            lines.push(format!("    let _ = string_println(bool_to_string({}f32 == {}));", text, sw));
            descr.push(format!("{}f32 denotes {}", text, sw));
        }
    }
    for (ci, chunk) in lines.chunks(200).enumerate() {
        let src = format!("fn main() -> unit {{\n{}\n    ()\n}}\n", chunk.join("\n"));
        let label = format!("f32_midpoints/{}", ci);
        let Some((out, _t, _)) = run_program(case, &label, &src, 5_000_000) else { continue };
        let exp: Vec<String> = chunk.iter().map(|_| "true".to_string()).collect();
        let base = ci * 200;
        compare_lines(case, &label, &src, &exp, &out, &|i| descr[base + i].clone());
        case.count("evaluations", chunk.len() as u64);
        case.count("float_checks", chunk.len() as u64);
        case.count("f32_midpoint_literals", chunk.len() as u64);
    }
}

/// float*_to_string must be a readable numeral denoting the value
fn float_to_string(case: &mut Case) {
    let vals32 = ["3.5f32", "0.1f32", "100.0f32", "0.25f32", "123456.0f32"];
    let vals64 = ["3.5", "0.1", "100.0", "0.000125", "1234567.5"];
    let mut lines = Vec::new();
    let mut want: Vec<f64> = Vec::new();
    for v in vals32 {
        lines.push(format!("    let _ = string_println(float32_to_string({}));", v));
        want.push(v.trim_end_matches("f32").parse::<f32>().unwrap() as f64);
    }
    for v in vals64 {
        lines.push(format!("    let _ = string_println(float64_to_string({}));", v));
        want.push(v.parse::<f64>().unwrap());
    }
    let src = format!("fn main() -> unit {{\n{}\n    ()\n}}\n", lines.join("\n"));
    let Some((out, _t, _)) = run_program(case, "float_to_string", &src, 1_000_000) else { return };
    for (i, (l, w)) in out.lines().zip(want.iter()).enumerate() {
        case.count("evaluations", 1);
        let parsed = l.trim().parse::<f64>();
        let ok = match parsed {
            Ok(p) => {
                let tol = if i < vals32.len() { (w.abs() * 1e-6).max(1e-9) } else { (w.abs() * 1e-14).max(1e-300) };
                (p - w).abs() <= tol
            }
            Err(_) => false,
        };
        if !ok {
            case.violation(
                format!("C10:float-to-string-unreadable:{}", if i < vals32.len() { "float32" } else { "float64" }),
                format!("float*_to_string({}) printed {:?}, which is not a numeral of that value", w, l),
                json!({"source": src, "line": l, "value": w}),
            );
            return;
        }
    }
    case.count("float_to_string_checked", want.len() as u64);
}

fn run(ctx: &mut Ctx) {
    let tier = ctx.tier;
    let seed = ctx.seed;
    if ctx.replay_input.is_some() {
        println!("replay: the replay file stores the source of the failing program and the failing line");
        return;
    }
    let thorough = tier == crate::runner::Tier::Thorough;
    let mut jobs: Vec<Box<dyn FnOnce(&mut Case) + Send>> = Vec::new();
    // exhaustive 8-bit
    let mut combos: Vec<(IntTy, &'static str)> = Vec::new();
    for t in [IntTy::I8, IntTy::U8] {
        for op in ARITH.iter().chain(CMP.iter()) {
            combos.push((t, op));
        }
    }
    if !thorough {
        combos.retain(|(t, op)| (*t == IntTy::I8 && ["+", "-", "/", "<"].contains(op)) || (*t == IntTy::U8 && ["*", "<=", "-"].contains(op)));
    }
    for (t, op) in combos {
        jobs.push(Box::new(move |c| exhaustive8(c, t, op)));
    }
    for t in [IntTy::I8, IntTy::U8] {
        jobs.push(Box::new(move |c| neg8(c, t)));
    }
    for t in ALL_INTS {
        let n_random = if thorough { 40 } else { 6 };
        jobs.push(Box::new(move |c| {
            let mut rng = Rng::keyed(seed, "c10-pairs", t.bits() as u64 + t.signed() as u64 * 100, 0);
            pairs_program(c, t, &mut rng, false, n_random)
        }));
        jobs.push(Box::new(move |c| {
            let mut rng = Rng::keyed(seed, "c10-pairs-lit", t.bits() as u64 + t.signed() as u64 * 100, 1);
            pairs_program(c, t, &mut rng, true, if thorough { 12 } else { 2 })
        }));
        jobs.push(Box::new(move |c| literal_spellings(c, t)));
        for part in 0..4 {
            jobs.push(Box::new(move |c| {
                let mut rng = Rng::keyed(seed, "c10-compound", t.bits() as u64 + t.signed() as u64 * 100, 2);
                compound_program(c, t, &mut rng, if thorough { 120 } else { 20 }, if thorough { 9 } else { 5 }, part, 4)
            }));
        }
        for unused in [false, true] {
            for literal_zero in [false, true] {
                jobs.push(Box::new(move |c| div_zero(c, t, unused, literal_zero)));
            }
        }
    }
    let nfl = if thorough { 3000 } else { 400 };
    for is32 in [true, false] {
        jobs.push(Box::new(move |c| {
            let mut rng = Rng::keyed(seed, "c10-float", is32 as u64, 0);
            float_arith(c, &mut rng, is32, nfl)
        }));
    }
    for is32 in [true, false] {
        jobs.push(Box::new(move |c| float_literal_arith(c, is32)));
    }
    let nmid = if thorough { 600 } else { 80 };
    jobs.push(Box::new(move |c| {
        let mut rng = Rng::keyed(seed, "c10-mid", 0, 0);
        f32_literal_midpoints(c, &mut rng, nmid)
    }));
    jobs.push(Box::new(float_to_string));
    for (i, job) in jobs.into_iter().enumerate() {
        if ctx.mine(i as u64) {
            ctx.case(&format!("job/{}", i), |c| job(c));
        }
    }
    capi::cleanup_scratch();
}
