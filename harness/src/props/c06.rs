//! C06: pattern matching picks the first matching arm and binds the right sub-values.
//! Exhaustive enumeration of small pattern matrices over a set of scrutinee shapes, all values of the
//! shape fed to each matrix; oracle = refsem's first-match interpreter.
use crate::diff::{self, DiffOpts, Outcome};
use crate::gl::ast::*;
use crate::gl::pgen::{Features, Gen};
use crate::runner::{Case, Ctx, PropSpec, Tier};
use crate::util::{self, Rng, hash_str};
use serde_json::json;

pub static SPEC: PropSpec = PropSpec {
    id: "C06",
    level: "exploration",
    rule: "matrices: for each scrutinee shape (bool, pairs/triples of bool, (int32, unit), enum with payloads, generic Opt[bool] / Opt[(bool,bool)], struct with permuted field patterns, int8/uint8/int32/int64 literals, strings, nested to depth 2) all matrices of 1..R rows (R=2 quick, 3 thorough; sampled beyond) over the cell alphabet {wildcard, variable, every literal/constructor with sub-patterns}; every matrix is applied to every value of the shape in `match` and (single irrefutable/refutable row) `let` form; each arm prints its index and every bound variable; the scrutinee carries a tick; non-matching values are executed last in their program (expected: failure at that point); integer-literal matrices without catch-all are compiled alone (expected: rejection). distinct = distinct (shape, matrix); non-trivial = >= 2 rows or a nested pattern",
    eval_counter: "matrix_value_pairs",
    assumptions: &[
        "arm bodies are unit-typed prints so that a missing arm is observable as a run-time failure (non-unit results of non-exhaustive matches are a recorded C02 finding)",
        "relative to refsem's first-match semantics and gomini's execution of the emitted Go",
    ],
    crash_is_violation: false,
    stack_mib: 256,
    case_cpu_s: 120,
    shards: 0,
    run,
    floors: &[("matrices", 3_000, 150_000), ("matrix_value_pairs", 10_000, 600_000), ("programs_agree", 60, 2_000), ("expected_missing_failures_checked", 10, 300), ("int_nonexhaustive_rejections_checked", 5, 50)],
    finish: None,
};

struct Shape {
    name: &'static str,
    ty: Ty,
    values: Vec<Expr>,
    /// integer literal columns need a catch-all (else compile-time rejection)
    has_int: bool,
}

fn decls() -> (Vec<StructDecl>, Vec<EnumDecl>) {
    let e2 = EnumDecl { name: "E2".into(), tparams: vec![], variants: vec![("P".into(), vec![]), ("Q".into(), vec![Ty::Bool])], derives: vec![] };
    let e = EnumDecl {
        name: "E".into(),
        tparams: vec![],
        variants: vec![("A".into(), vec![]), ("B".into(), vec![Ty::Bool]), ("C".into(), vec![Ty::Bool, Ty::Enum("E2".into(), vec![])])],
        derives: vec![],
    };
    let opt = EnumDecl { name: "Opt".into(), tparams: vec!["T".into()], variants: vec![("Som".into(), vec![Ty::Param("T".into())]), ("Non".into(), vec![])], derives: vec![] };
    let s = StructDecl { name: "S".into(), tparams: vec![], fields: vec![("f".into(), Ty::Bool), ("g".into(), Ty::Bool), ("h".into(), I32)], derives: vec![] };
    (vec![s], vec![e2, e, opt])
}

fn bools() -> Vec<Expr> {
    vec![Expr::Bool(false), Expr::Bool(true)]
}
fn e2_ty() -> Ty {
    Ty::Enum("E2".into(), vec![])
}
fn e2_vals() -> Vec<Expr> {
    let mut v = vec![Expr::Constr { enum_name: "E2".into(), variant: "P".into(), ty: e2_ty(), args: vec![], qualified: true }];
    for b in bools() {
        v.push(Expr::Constr { enum_name: "E2".into(), variant: "Q".into(), ty: e2_ty(), args: vec![b], qualified: true });
    }
    v
}
fn product(parts: &[Vec<Expr>]) -> Vec<Vec<Expr>> {
    let mut out: Vec<Vec<Expr>> = vec![vec![]];
    for p in parts {
        let mut next = Vec::new();
        for o in &out {
            for x in p {
                let mut y = o.clone();
                y.push(x.clone());
                next.push(y);
            }
        }
        out = next;
    }
    out
}
fn ints(t: IntTy, vals: &[i128]) -> Vec<Expr> {
    vals.iter().map(|v| Expr::Int(t, *v, t != IntTy::I32)).collect()
}

fn shapes() -> Vec<Shape> {
    let e_ty = Ty::Enum("E".into(), vec![]);
    let mut e_vals = vec![Expr::Constr { enum_name: "E".into(), variant: "A".into(), ty: e_ty.clone(), args: vec![], qualified: true }];
    for b in bools() {
        e_vals.push(Expr::Constr { enum_name: "E".into(), variant: "B".into(), ty: e_ty.clone(), args: vec![b], qualified: true });
    }
    for c in product(&[bools(), e2_vals()]) {
        e_vals.push(Expr::Constr { enum_name: "E".into(), variant: "C".into(), ty: e_ty.clone(), args: c, qualified: true });
    }
    let optb = Ty::Enum("Opt".into(), vec![Ty::Bool]);
    let mut optb_vals = vec![Expr::Constr { enum_name: "Opt".into(), variant: "Non".into(), ty: optb.clone(), args: vec![], qualified: true }];
    for b in bools() {
        optb_vals.push(Expr::Constr { enum_name: "Opt".into(), variant: "Som".into(), ty: optb.clone(), args: vec![b], qualified: true });
    }
    let bb = Ty::Tuple(vec![Ty::Bool, Ty::Bool]);
    let optbb = Ty::Enum("Opt".into(), vec![bb.clone()]);
    let mut optbb_vals = vec![Expr::Constr { enum_name: "Opt".into(), variant: "Non".into(), ty: optbb.clone(), args: vec![], qualified: true }];
    for c in product(&[bools(), bools()]) {
        optbb_vals.push(Expr::Constr { enum_name: "Opt".into(), variant: "Som".into(), ty: optbb.clone(), args: vec![Expr::Tuple(c)], qualified: true });
    }
    let s_ty = Ty::Struct("S".into(), vec![]);
    let mut s_vals = Vec::new();
    for c in product(&[bools(), bools(), ints(IntTy::I32, &[0, 1])]) {
        s_vals.push(Expr::StructLit { name: "S".into(), ty: s_ty.clone(), fields: vec![("f".into(), c[0].clone()), ("g".into(), c[1].clone()), ("h".into(), c[2].clone())] });
    }
    let strs: Vec<Expr> = ["", "a", "b", "ab", "a\tb", "q\"\\"].iter().map(|s| Expr::Str(s.to_string())).collect();
    vec![
        Shape { name: "bool", ty: Ty::Bool, values: bools(), has_int: false },
        Shape { name: "unit", ty: Ty::Unit, values: vec![Expr::Unit], has_int: false },
        Shape { name: "bool2", ty: bb.clone(), values: product(&[bools(), bools()]).into_iter().map(Expr::Tuple).collect(), has_int: false },
        Shape { name: "bool3", ty: Ty::Tuple(vec![Ty::Bool, Ty::Bool, Ty::Bool]), values: product(&[bools(), bools(), bools()]).into_iter().map(Expr::Tuple).collect(), has_int: false },
        Shape { name: "int_unit", ty: Ty::Tuple(vec![I32, Ty::Unit]), values: product(&[ints(IntTy::I32, &[0, 1, 2, 3]), vec![Expr::Unit]]).into_iter().map(Expr::Tuple).collect(), has_int: true },
        Shape { name: "bool_unit", ty: Ty::Tuple(vec![Ty::Bool, Ty::Unit]), values: product(&[bools(), vec![Expr::Unit]]).into_iter().map(Expr::Tuple).collect(), has_int: false },
        Shape { name: "enum_e", ty: e_ty, values: e_vals, has_int: false },
        Shape { name: "opt_bool", ty: optb, values: optb_vals, has_int: false },
        Shape { name: "opt_bool2", ty: optbb, values: optbb_vals, has_int: false },
        Shape { name: "struct_s", ty: s_ty, values: s_vals, has_int: true },
        Shape { name: "int32", ty: I32, values: ints(IntTy::I32, &[0, 1, 2, 3]), has_int: true },
        Shape { name: "int8", ty: Ty::Int(IntTy::I8), values: ints(IntTy::I8, &[0, 1, 2, 127]), has_int: true },
        Shape { name: "uint8", ty: Ty::Int(IntTy::U8), values: ints(IntTy::U8, &[0, 1, 2, 255]), has_int: true },
        Shape { name: "int64", ty: Ty::Int(IntTy::I64), values: ints(IntTy::I64, &[0, 1, 2, 9223372036854775807]), has_int: true },
        Shape { name: "string", ty: Ty::Str, values: strs.clone(), has_int: false },
        Shape { name: "str_bool", ty: Ty::Tuple(vec![Ty::Str, Ty::Bool]), values: product(&[strs, bools()]).into_iter().map(Expr::Tuple).collect(), has_int: false },
        // a tuple column next to a sibling column (splitting the inner tuple must keep the sibling tests of rows that
        // do not mention it; added after a seeded change that dropped them)
        Shape { name: "bool_pair_nested", ty: Ty::Tuple(vec![Ty::Bool, bb.clone()]), values: product(&[bools(), product(&[bools(), bools()]).into_iter().map(Expr::Tuple).collect()]).into_iter().map(Expr::Tuple).collect(), has_int: false },
        Shape { name: "bool_intpair_nested", ty: Ty::Tuple(vec![Ty::Bool, Ty::Tuple(vec![I32, I32])]), values: product(&[bools(), product(&[ints(IntTy::I32, &[0, 1]), ints(IntTy::I32, &[5, 6])]).into_iter().map(Expr::Tuple).collect()]).into_iter().map(Expr::Tuple).collect(), has_int: true },
        Shape { name: "pair_nested_bool", ty: Ty::Tuple(vec![bb.clone(), Ty::Bool]), values: product(&[product(&[bools(), bools()]).into_iter().map(Expr::Tuple).collect(), bools()]).into_iter().map(Expr::Tuple).collect(), has_int: false },
        Shape { name: "int_bool", ty: Ty::Tuple(vec![I32, Ty::Bool]), values: product(&[ints(IntTy::I32, &[0, 1, 2]), bools()]).into_iter().map(Expr::Tuple).collect(), has_int: true },
    ]
}

/// all cell patterns for a type up to nesting depth `d` (variables are named `?`, renamed per row later)
fn pats(ty: &Ty, d: u32, g: &Gen) -> Vec<Pat> {
    let mut out = vec![Pat::Wild, Pat::Var("?".into())];
    match ty {
        Ty::Bool => out.extend([Pat::Bool(false), Pat::Bool(true)]),
        Ty::Unit => out.push(Pat::Unit),
        Ty::Int(t) => {
            for v in [0i128, 1, 2] {
                out.push(Pat::Int(*t, v, *t != IntTy::I32));
            }
        }
        // (two spellings need escapes: a TAB, and a quote followed by a backslash)
        Ty::Str => out.extend([Pat::Str("".into()), Pat::Str("a".into()), Pat::Str("b".into()), Pat::Str("a\tb".into()), Pat::Str("q\"\\".into())]),
        Ty::Tuple(ts) if d > 0 => {
            let parts: Vec<Vec<Pat>> = ts.iter().map(|t| pats(t, d - 1, g)).collect();
            let mut combos: Vec<Vec<Pat>> = vec![vec![]];
            for p in &parts {
                let mut next = Vec::new();
                for c in &combos {
                    for x in p {
                        let mut y = c.clone();
                        y.push(x.clone());
                        next.push(y);
                    }
                }
                combos = next;
            }
            out.extend(combos.into_iter().map(Pat::Tuple));
        }
        Ty::Enum(n, a) if d > 0 => {
            let e = g.enums.iter().find(|e| &e.name == n).unwrap();
            let m: Vec<(String, Ty)> = e.tparams.iter().cloned().zip(a.iter().cloned()).collect();
            for (v, ts) in &e.variants {
                let parts: Vec<Vec<Pat>> = ts.iter().map(|t| pats(&t.subst(&m), d - 1, g)).collect();
                let mut combos: Vec<Vec<Pat>> = vec![vec![]];
                for p in &parts {
                    let mut next = Vec::new();
                    for c in &combos {
                        for x in p {
                            let mut y = c.clone();
                            y.push(x.clone());
                            next.push(y);
                        }
                    }
                    combos = next;
                }
                for c in combos {
                    out.push(Pat::Constr { enum_name: n.clone(), variant: v.clone(), args: c.clone(), qualified: true });
                    if c.is_empty() || v == "Som" {
                        out.push(Pat::Constr { enum_name: n.clone(), variant: v.clone(), args: c, qualified: false });
                    }
                }
            }
        }
        Ty::Struct(n, _) if d > 0 => {
            let s = g.structs.iter().find(|s| &s.name == n).unwrap();
            // field patterns restricted to a small alphabet, in declaration order and in two permutations
            let alph = |t: &Ty| -> Vec<Pat> {
                let mut v = vec![Pat::Wild, Pat::Var("?".into())];
                match t {
                    Ty::Bool => v.push(Pat::Bool(true)),
                    Ty::Int(it) => v.push(Pat::Int(*it, 1, false)),
                    Ty::Enum(en, _) if en == "E2" => v.push(Pat::Constr { enum_name: "E2".into(), variant: "P".into(), args: vec![], qualified: true }),
                    _ => {}
                }
                v
            };
            let parts: Vec<Vec<Pat>> = s.fields.iter().map(|(_, t)| alph(t)).collect();
            let mut combos: Vec<Vec<Pat>> = vec![vec![]];
            for p in &parts {
                let mut next = Vec::new();
                for c in &combos {
                    for x in p {
                        let mut y = c.clone();
                        y.push(x.clone());
                        next.push(y);
                    }
                }
                combos = next;
            }
            for (k, c) in combos.into_iter().enumerate() {
                let mut fields: Vec<(String, Pat)> = s.fields.iter().map(|(f, _)| f.clone()).zip(c.into_iter()).collect();
                match k % 3 {
                    1 => fields.reverse(),
                    2 => fields.rotate_left(1),
                    _ => {}
                }
                out.push(Pat::Struct { name: n.clone(), fields });
            }
        }
        _ => {}
    }
    out
}

fn rename_vars(p: &Pat, ty: &Ty, g: &Gen, counter: &mut u32, binds: &mut Vec<(String, Ty)>) -> Pat {
    match (p, ty) {
        (Pat::Var(_), _) => {
            let n = format!("b{}", *counter);
            *counter += 1;
            binds.push((n.clone(), ty.clone()));
            Pat::Var(n)
        }
        (Pat::Tuple(ps), Ty::Tuple(ts)) => Pat::Tuple(ps.iter().zip(ts.iter()).map(|(q, t)| rename_vars(q, t, g, counter, binds)).collect()),
        (Pat::Constr { enum_name, variant, args, qualified }, Ty::Enum(n, a)) => {
            let e = g.enums.iter().find(|e| &e.name == n).unwrap();
            let m: Vec<(String, Ty)> = e.tparams.iter().cloned().zip(a.iter().cloned()).collect();
            let ts = &e.variants.iter().find(|(v, _)| v == variant).unwrap().1;
            Pat::Constr {
                enum_name: enum_name.clone(),
                variant: variant.clone(),
                args: args.iter().zip(ts.iter()).map(|(q, t)| rename_vars(q, &t.subst(&m), g, counter, binds)).collect(),
                qualified: *qualified,
            }
        }
        (Pat::Struct { name, fields }, Ty::Struct(n, _)) => {
            let s = g.structs.iter().find(|s| &s.name == n).unwrap();
            Pat::Struct {
                name: name.clone(),
                fields: fields
                    .iter()
                    .map(|(f, q)| {
                        let ft = &s.fields.iter().find(|(x, _)| x == f).unwrap().1;
                        (f.clone(), rename_vars(q, ft, g, counter, binds))
                    })
                    .collect(),
            }
        }
        _ => p.clone(),
    }
}

fn irrefutable(p: &Pat) -> bool {
    match p {
        Pat::Wild | Pat::Var(_) | Pat::Unit => true,
        Pat::Tuple(ps) => ps.iter().all(irrefutable),
        Pat::Struct { fields, .. } => fields.iter().all(|(_, q)| irrefutable(q)),
        _ => false,
    }
}

fn has_int_literal(p: &Pat) -> bool {
    match p {
        Pat::Int(..) => true,
        Pat::Tuple(ps) => ps.iter().any(has_int_literal),
        Pat::Struct { fields, .. } => fields.iter().any(|(_, q)| has_int_literal(q)),
        Pat::Constr { args, .. } => args.iter().any(has_int_literal),
        _ => false,
    }
}

fn nested(p: &Pat) -> bool {
    match p {
        Pat::Tuple(ps) => ps.iter().any(|q| !matches!(q, Pat::Wild | Pat::Var(_))),
        Pat::Struct { fields, .. } => fields.iter().any(|(_, q)| !matches!(q, Pat::Wild | Pat::Var(_))),
        Pat::Constr { args, .. } => args.iter().any(|q| !matches!(q, Pat::Wild | Pat::Var(_))),
        _ => false,
    }
}

struct Matrix {
    shape: usize,
    rows: Vec<Pat>,
    let_form: bool,
}

/// build fn m<k>(v: T) -> unit { match { tick; v } { rows... } }
fn matrix_fn(g: &mut Gen, k: usize, shape: &Shape, m: &Matrix) -> FnDecl {
    let scrut = Expr::Block(vec![Stmt::Let(Pat::Wild, None, Expr::Builtin("string_print".into(), vec![Expr::Str(format!("s{};", k))]))], Some(Box::new(Expr::Var("v".into()))));
    let mut counter = 0;
    let mut arms = Vec::new();
    for (i, row) in m.rows.iter().enumerate() {
        let mut binds = Vec::new();
        let p = rename_vars(row, &shape.ty, g, &mut counter, &mut binds);
        let mut parts = vec![Expr::Str(format!("m{}a{}", k, i))];
        for (n, t) in &binds {
            parts.push(Expr::Str(format!(" {}=", n)));
            parts.push(g.show(Expr::Var(n.clone()), t));
        }
        let mut it = parts.into_iter();
        let mut acc = it.next().unwrap();
        for q in it {
            acc = Expr::Binary(BinOp::Add, Box::new(acc), Box::new(q));
        }
        arms.push((p, Expr::Builtin("string_println".into(), vec![acc])));
    }
    let body = if m.let_form {
        let (p, b) = arms.remove(0);
        Expr::Block(vec![Stmt::Let(p, None, scrut)], Some(Box::new(b)))
    } else {
        Expr::Block(vec![], Some(Box::new(Expr::Match(Box::new(scrut), arms))))
    };
    FnDecl { name: format!("m{}", k), tparams: vec![], params: vec![("v".into(), shape.ty.clone())], ret: Ty::Unit, body }
}

fn value_matches(g: &Gen, prog: &Program, m: &Matrix, shape: &Shape, val: &Expr) -> bool {
    // evaluate with refsem's own matcher
    let interp = crate::gl::eval::Interp::new(prog, 10_000);
    let mut it = interp;
    let tenv = std::rc::Rc::new(Vec::new());
    let v = match it.eval(val, &None, &tenv) {
        Ok(v) => v,
        Err(_) => return true,
    };
    let _ = (g, shape);
    for row in &m.rows {
        let mut b = Vec::new();
        if it.match_pat(row, &v, &mut b).unwrap_or(true) {
            return true;
        }
    }
    false
}

fn base_gen<'r>(rng: &'r mut Rng) -> Gen<'r> {
    let mut f = Features::base();
    f.ticks = false;
    let mut g = Gen::new(rng, f);
    let (ss, es) = decls();
    g.structs = ss;
    g.enums = es;
    g
}

fn build_program(rng: &mut Rng, shapes: &[Shape], batch: &[Matrix], failing_pair: Option<(usize, usize)>) -> (Program, u64) {
    let mut g = base_gen(rng);
    let mut prog = Program::default();
    for s in g.structs.clone() {
        prog.items.push(Item::Struct(s));
    }
    for e in g.enums.clone() {
        prog.items.push(Item::Enum(e));
    }
    let mut fns = Vec::new();
    for (k, m) in batch.iter().enumerate() {
        fns.push(matrix_fn(&mut g, k, &shapes[m.shape], m));
    }
    // the program skeleton (decls + fns) is needed to evaluate which values match
    let mut skel = prog.clone();
    for f in &fns {
        skel.items.push(Item::Fn(f.clone()));
    }
    let mut stmts = Vec::new();
    let mut pairs = 0u64;
    let mut deferred: Option<Stmt> = None;
    for (k, m) in batch.iter().enumerate() {
        let shape = &shapes[m.shape];
        for (vi, val) in shape.values.iter().enumerate() {
            let call = Stmt::Let(Pat::Wild, None, Expr::Call { name: format!("m{}", k), targs: vec![], args: vec![val.clone()] });
            if value_matches(&g, &skel, m, shape, val) {
                stmts.push(call);
                pairs += 1;
            } else if failing_pair == Some((k, vi)) {
                deferred = Some(call);
            }
        }
    }
    if let Some(d) = deferred {
        stmts.push(d);
        pairs += 1;
        stmts.push(Stmt::Let(Pat::Wild, None, Expr::Builtin("string_println".into(), vec![Expr::Str("unreachable".into())])));
    }
    for f in fns {
        prog.items.push(Item::Fn(f));
    }
    for f in std::mem::take(&mut g.show_items) {
        prog.items.push(Item::Fn(f));
    }
    prog.items.push(Item::Fn(FnDecl { name: "main".into(), tparams: vec![], params: vec![], ret: Ty::Unit, body: Expr::Block(stmts, Some(Box::new(Expr::Unit))) }));
    (prog, pairs)
}

fn failing_pairs(rng: &mut Rng, shapes: &[Shape], batch: &[Matrix]) -> Vec<(usize, usize)> {
    let mut g = base_gen(rng);
    let mut skel = Program::default();
    for s in g.structs.clone() {
        skel.items.push(Item::Struct(s));
    }
    for e in g.enums.clone() {
        skel.items.push(Item::Enum(e));
    }
    let mut out = Vec::new();
    for (k, m) in batch.iter().enumerate() {
        let shape = &shapes[m.shape];
        for (vi, val) in shape.values.iter().enumerate() {
            if !value_matches(&g, &skel, m, shape, val) {
                out.push((k, vi));
            }
        }
    }
    let _ = &mut g;
    out
}

fn check_batch(case: &mut Case, label: &str, rng: &mut Rng, shapes: &[Shape], batch: &[Matrix], with_failures: usize) {
    let opts = DiffOpts { prop: "C06", vet_is_violation: false, budget: 3_000_000, print: PrintOpts::default() };
    let fails = failing_pairs(rng, shapes, batch);
    let mut plans: Vec<Option<(usize, usize)>> = vec![None];
    let mut fl = fails.clone();
    rng.shuffle(&mut fl);
    for f in fl.into_iter().take(with_failures) {
        plans.push(Some(f));
    }
    for (pi, plan) in plans.iter().enumerate() {
        let (prog, pairs) = build_program(rng, shapes, batch, *plan);
        let o = diff::run_diff(case, &prog, &format!("{}/{}", label, pi), &opts);
        match o {
            Outcome::Agree { failed_as_expected, .. } => {
                case.count("programs_agree", 1);
                case.count("matrix_value_pairs", if pi == 0 { pairs } else { 1 });
                if failed_as_expected {
                    case.count("expected_missing_failures_checked", 1);
                }
                if pi == 0 {
                    case.count("matrices", batch.len() as u64);
                    for m in batch {
                        let key = format!("{}|{:?}|{}", shapes[m.shape].name, m.rows, m.let_form);
                        if m.rows.len() >= 2 || m.rows.iter().any(nested) {
                            case.nontrivial(hash_str(&key));
                        }
                        case.count(&format!("matrices_shape:{}", shapes[m.shape].name), 1);
                    }
                }
            }
            Outcome::Rejected(stage, msg) => {
                case.violation(
                    format!("C06:matrix-program-rejected:{}", diff::msg_class(&msg)),
                    format!("a well-typed matrix program is rejected ({}): {}", stage, util::truncate(&msg, 160)),
                    json!({"label": label, "source": print_program(&prog, PrintOpts::default())}),
                );
            }
            Outcome::Inconclusive(r) => {
                if r.starts_with("compiler panic") {
                    case.violation(
                        format!("C06:{}", diff::msg_class(&r)),
                        format!("a well-typed pattern-matrix program makes the compiler crash: {}", r),
                        json!({"label": label, "source": print_program(&prog, PrintOpts::default())}),
                    );
                } else {
                    case.inconclusive(diff::msg_class(&r));
                }
            }
            Outcome::Violation => {}
        }
        if pi == 0 {
            case.sample(json!({"workload": label.split('/').next().unwrap_or(label), "matrices": batch.len(),
                "example_matrix": batch.first().map(|m| format!("{} {:?}", shapes[m.shape].name, m.rows)).unwrap_or_default()}));
        }
    }
}

/// integer-literal matrix without catch-all: must be rejected at compile time
fn check_int_rejection(case: &mut Case, rng: &mut Rng, shapes: &[Shape], m: Matrix) {
    let (prog, _) = build_program(rng, shapes, std::slice::from_ref(&m), None);
    let src = print_program(&prog, PrintOpts::default());
    match crate::runner::guard(|| crate::capi::compile_single(&src).map(|_| ())) {
        Ok(Err(e)) => {
            let msgs = crate::capi::err_messages(&e);
            if msgs.iter().any(|m| m.contains("non-exhaustive")) {
                case.count("int_nonexhaustive_rejections_checked", 1);
            } else {
                case.count("int_nonexhaustive_rejected_other_reason", 1);
            }
        }
        Ok(Ok(())) => {
            // accepted: then it must behave (fail at run time when nothing matches): run the differential
            let opts = DiffOpts { prop: "C06", vet_is_violation: false, budget: 1_000_000, print: PrintOpts::default() };
            let fails = failing_pairs(rng, shapes, std::slice::from_ref(&m));
            let plan = fails.first().copied();
            let (prog2, _) = build_program(rng, shapes, std::slice::from_ref(&m), plan);
            let _ = diff::run_diff(case, &prog2, "int-nonexhaustive-accepted", &opts);
            case.count("int_nonexhaustive_accepted", 1);
        }
        Err(p) => case.inconclusive(format!("compiler panic at {} (a C04 event)", p.site)),
    }
}

fn is_exhaustive_by_catch_all(m: &Matrix) -> bool {
    m.rows.iter().any(irrefutable)
}

fn run(ctx: &mut Ctx) {
    let tier = ctx.tier;
    let seed = ctx.seed;
    if ctx.replay_input.is_some() {
        println!("replay: the replay file stores the full source and both outputs");
        return;
    }
    let shapes = shapes();
    let mut rng0 = Rng::new(1);
    let g0 = base_gen(&mut rng0);
    let all_pats: Vec<Vec<Pat>> = shapes.iter().map(|s| pats(&s.ty, 2, &g0)).collect();
    drop(g0);
    let max_rows = tier.pick(2usize, 3usize);
    let per_prog = 40usize;
    let mut idx = 0u64;
    for (si, shape) in shapes.iter().enumerate() {
        let ps = &all_pats[si];
        let n = ps.len() as u64;
        // exhaustive when the space is small enough, else sampled
        for rows in 1..=max_rows {
            let space = n.saturating_pow(rows as u32);
            let cap = tier.pick(1_500u64, 40_000u64);
            let exhaustive = space <= cap;
            let count = space.min(cap);
            let mut batch: Vec<Matrix> = Vec::new();
            let mut int_rej: Vec<Matrix> = Vec::new();
            for j in 0..count {
                let mut code = if exhaustive { j } else { Rng::keyed(seed, "c06-sample", si as u64 * 10 + rows as u64, j).next_u64() % space };
                let mut rws = Vec::new();
                for _ in 0..rows {
                    rws.push(ps[(code % n) as usize].clone());
                    code /= n;
                }
                let let_form = rows == 1 && j % 3 == 0;
                let m = Matrix { shape: si, rows: rws, let_form };
                if shape.has_int && m.rows.iter().any(has_int_literal) && !is_exhaustive_by_catch_all(&m) {
                    if int_rej.len() < tier.pick(2, 12) {
                        int_rej.push(m);
                    }
                    continue;
                }
                batch.push(m);
                if batch.len() == per_prog {
                    idx += 1;
                    let b = std::mem::take(&mut batch);
                    if ctx.mine(idx) {
                        let mut rng = Rng::keyed(seed, "c06-batch", si as u64, idx);
                        let label = format!("{}{}/rows{}/{}", if exhaustive { "exh-" } else { "smp-" }, shape.name, rows, idx);
                        let nf = tier.pick(1, 4);
                        ctx.case(&label.clone(), |c| check_batch(c, &label, &mut rng, &shapes, &b, nf));
                    }
                }
            }
            if !batch.is_empty() {
                idx += 1;
                if ctx.mine(idx) {
                    let mut rng = Rng::keyed(seed, "c06-batch", si as u64, idx);
                    let label = format!("{}{}/rows{}/{}", if exhaustive { "exh-" } else { "smp-" }, shape.name, rows, idx);
                    let b = std::mem::take(&mut batch);
                    ctx.case(&label.clone(), |c| check_batch(c, &label, &mut rng, &shapes, &b, tier.pick(1, 4)));
                }
            }
            for m in int_rej {
                idx += 1;
                if ctx.mine(idx) {
                    let mut rng = Rng::keyed(seed, "c06-intrej", si as u64, idx);
                    ctx.case(&format!("intrej/{}/{}", shape.name, idx), |c| check_int_rejection(c, &mut rng, &shapes, m));
                }
            }
            if ctx.shard == 0 && exhaustive {
                ctx.add_stat(&format!("exhaustive:{}:rows{}", shape.name, rows), space);
            }
        }
    }
    // larger sampled matrices (4-6 rows) to reach column reordering / fallback-row copying
    let big = tier.pickn(40u64, 3_000u64) / ctx.nshards as u64 + 1;
    for i in 0..big {
        let mut rng = Rng::keyed(seed, "c06-big", ctx.shard as u64, i);
        let mut batch = Vec::new();
        for _ in 0..12 {
            let si = rng.below(shapes.len());
            let ps = &all_pats[si];
            let rows = 4 + rng.below(3);
            let mut rws: Vec<Pat> = (0..rows).map(|_| rng.pick_ref(ps).clone()).collect();
            if shapes[si].has_int || rng.chance(2, 3) {
                rws.push(if rng.bool() { Pat::Wild } else { Pat::Var("?".into()) });
            }
            batch.push(Matrix { shape: si, rows: rws, let_form: false });
        }
        let label = format!("big/{}/{}", ctx.shard, i);
        ctx.case(&label.clone(), |c| check_batch(c, &label, &mut rng, &shapes, &batch, 2));
    }
    let _ = Tier::Quick;
    // a scrutinee variable matched again inside an arm of a match on itself (all nestings of two matches over
    // three scrutinee shapes): the inner match sees the same value
    {
        let progs: [(&str, &str, &str); 5] = [
            (
                "enum-rematch-in-arm",
                "enum E { A(int32), B, C(int32, int32) }\nfn f(e: E) -> int32 {\n    match e {\n        E::A(k) => match e { E::A(j) => k + j, _ => 0 - 1 },\n        E::B => match e { E::B => 7, _ => 0 - 4 },\n        E::C(a, b) => {\n            let r = match e { E::C(x, y) => x * y, E::A(_) => 0 - 2, E::B => 0 - 3 };\n            r + a + b\n        },\n    }\n}\nfn main() -> unit {\n    let _ = string_println(int32_to_string(f(E::A(4))) + \" \" + int32_to_string(f(E::B)) + \" \" + int32_to_string(f(E::C(2, 5))));\n    ()\n}\n",
                "8 7 17\n",
            ),
            (
                "generic-enum-rematch-in-arm",
                "enum Opt[T] { Some(T), None }\nfn g(o: Opt[int32]) -> int32 {\n    match o {\n        Opt::Some(k) => match o { Opt::None => 0 - 1, Opt::Some(j) => k * 10 + j },\n        Opt::None => match o { Opt::None => 5, Opt::Some(_) => 0 - 2 },\n    }\n}\nfn main() -> unit {\n    let _ = string_println(int32_to_string(g(Opt::Some(3))) + \" \" + int32_to_string(g(Opt::None)));\n    ()\n}\n",
                "33 5\n",
            ),
            (
                "enum-rematch-unused-result",
                "enum E { A(int32), B }\nfn f(e: E) -> int32 {\n    match e {\n        E::A(k) => {\n            let unused = match e { E::A(j) => j, E::B => 0 };\n            k\n        },\n        E::B => 2,\n    }\n}\nfn main() -> unit {\n    let _ = string_println(int32_to_string(f(E::A(4)) + f(E::B)));\n    ()\n}\n",
                "6\n",
            ),
            (
                "enum-rematch-three-deep",
                "enum E { A(int32), B }\nfn f(e: E) -> int32 {\n    match e {\n        E::A(k) => match e {\n            E::A(j) => match e { E::A(i) => i + j + k, E::B => 0 - 1 },\n            E::B => 0 - 2,\n        },\n        E::B => 9,\n    }\n}\nfn main() -> unit {\n    let _ = string_println(int32_to_string(f(E::A(2))) + \" \" + int32_to_string(f(E::B)));\n    ()\n}\n",
                "6 9\n",
            ),
            (
                "enum-in-tuple-rematch",
                "enum E { A(int32), B }\nfn f(e: E, n: int32) -> int32 {\n    match (e, n) {\n        (E::A(k), 0) => match e { E::A(j) => j + k, E::B => 0 - 1 },\n        (E::A(k), _) => k,\n        (E::B, m) => match e { E::B => m, E::A(_) => 0 - 2 },\n    }\n}\nfn main() -> unit {\n    let _ = string_println(int32_to_string(f(E::A(3), 0)) + \" \" + int32_to_string(f(E::A(3), 1)) + \" \" + int32_to_string(f(E::B, 8)));\n    ()\n}\n",
                "6 3 8\n",
            ),
        ];
        for (i, (name, src, expected)) in progs.iter().enumerate() {
            if !ctx.mine(880_000 + i as u64) {
                continue;
            }
            let label = format!("rematch/{}", name);
            ctx.case(&label.clone(), |c| {
                if let Some((out, term, stderr)) = crate::exec::run_source(c, "C06", &label, src, 1_000_000) {
                    if out == *expected && matches!(term, crate::goexec::Term::Ok) {
                        c.count("rematch_programs_ok", 1);
                        c.nontrivial(hash_str(src));
                    } else {
                        c.violation(format!("C06:rematch-of-scrutinee-variable:{}", name), format!("{} prints {:?} ({:?} {}), expected {:?}", name, out, term, util::truncate(&stderr, 80), expected), json!({"label": label, "source": src, "stdout": out}));
                    }
                }
            });
        }
    }
    crate::capi::cleanup_scratch();
}
