//! Developer aid: `goml-verif reduce <file.gom> <mode> <needle>` - line-based delta debugging.
//! mode "vet": keep while the program compiles and gomini vet rejects with a message containing <needle>.
//! mode "panic": keep while the compiler panics with a site/message containing <needle>.
//! mode "reject": keep while the compiler rejects with a message containing <needle>.
use crate::capi;
use crate::goexec::{self, Vet};

fn holds(src: &str, mode: &str, needle: &str) -> bool {
    match mode {
        "vet" => match crate::runner::guard(|| capi::compile_single(src).map(|c| capi::go_text(&c))) {
            Ok(Ok(go)) => match goexec::vet(&goexec::parse(&go)) {
                Vet::Reject(errs) => errs.iter().any(|(k, _, m)| format!("{} {}", k, m).contains(needle)),
                _ => false,
            },
            _ => false,
        },
        "panic" => match crate::runner::guard(|| capi::compile_single(src).map(|c| capi::go_text(&c))) {
            Err(p) => format!("{} {}", p.site, p.message).contains(needle),
            _ => false,
        },
        "gofail" => match crate::runner::guard(|| capi::compile_single(src).map(|c| capi::go_text(&c))) {
            Ok(Ok(go)) => {
                let gp = goexec::parse(&go);
                if !matches!(goexec::vet(&gp), Vet::Accept) {
                    return false;
                }
                let r = goexec::run(&gp, 5_000_000, gomini::Sched::Deterministic);
                matches!(r.term, goexec::Term::Fail(_)) && r.stderr.contains(needle)
            }
            _ => false,
        },
        "reject" => match crate::runner::guard(|| capi::compile_single(src).map(|c| capi::go_text(&c))) {
            Ok(Err(e)) => capi::err_messages(&e).iter().any(|m| m.contains(needle)),
            _ => false,
        },
        "reject-only" => match crate::runner::guard(|| capi::compile_single(src).map(|c| capi::go_text(&c))) {
            Ok(Err(e)) => {
                let ms = capi::err_messages(&e);
                !ms.is_empty() && ms.iter().all(|m| m.contains(needle)) && capi::err_stage(&e) == "typer"
            }
            _ => false,
        },
        _ => false,
    }
}

fn balanced(lines: &[&str]) -> bool {
    let mut depth: i64 = 0;
    for l in lines {
        for c in l.chars() {
            match c {
                '{' | '(' | '[' => depth += 1,
                '}' | ')' | ']' => {
                    depth -= 1;
                    if depth < 0 {
                        return false;
                    }
                }
                _ => {}
            }
        }
    }
    depth == 0
}

pub fn reduce(src: &str, mode: &str, needle: &str) -> String {
    let mut cur: Vec<String> = src.lines().map(|l| l.to_string()).collect();
    if !holds(&cur.join("\n"), mode, needle) {
        eprintln!("predicate does not hold on the input");
        return src.to_string();
    }
    loop {
        let mut progress = false;
        // try removing balanced ranges, largest first
        let n = cur.len();
        let mut sizes: Vec<usize> = vec![n / 2, n / 4, n / 8, 64, 32, 16, 8, 4, 3, 2, 1];
        sizes.retain(|s| *s >= 1 && *s < n);
        sizes.dedup();
        for size in sizes {
            let mut i = 0;
            while i + size <= cur.len() {
                let refs: Vec<&str> = cur[i..i + size].iter().map(|s| s.as_str()).collect();
                if balanced(&refs) && refs.iter().any(|l| !l.trim().is_empty()) {
                    let mut cand = cur.clone();
                    cand.drain(i..i + size);
                    if holds(&cand.join("\n"), mode, needle) {
                        cur = cand;
                        progress = true;
                        continue;
                    }
                }
                i += 1;
            }
        }
        // try replacing `match () { _ => {` ... `} }` wrappers / simplifying is left to the reader
        if !progress {
            break;
        }
    }
    cur.retain(|l| !l.trim().is_empty());
    cur.join("\n")
}

pub fn main(args: &[String]) -> i32 {
    crate::runner::install_panic_hook();
    let src = std::fs::read_to_string(&args[0]).expect("read");
    let out = reduce(&src, &args[1], &args[2]);
    println!("{}", out);
    0
}
