pub mod ast;
pub mod eval;
pub mod pgen;
pub mod rename;
