fn main() {
    let args: Vec<String> = std::env::args().collect();
    for f in &args[1..] {
        let src = std::fs::read_to_string(f).unwrap();
        match gomini::parse::parse_file(&src) {
            Ok(file) => println!("{}: ok decls={} nodes={}", f, file.decls.len(), file.node_count),
            Err(e) => println!("{}: ERR {}", f, e),
        }
    }
}
