//! Calibration item 4: hand-written valid programs whose output follows
//! from the Go specification (and the documented behaviour of the gc
//! runtime and fmt).

use gomini::{Event, Exit, PanicClass, RunConfig, Sched};

fn run_cfg(src: &str, cfg: &RunConfig) -> gomini::RunResult {
    let file = gomini::parse(src).unwrap_or_else(|e| panic!("parse: {}\n{}", e, src));
    let rep = gomini::vet(&file);
    assert!(rep.ok(), "vet: {:?} {:?}\n{}", rep.errors, rep.unsupported, src);
    gomini::run(&file, cfg)
}

fn run(src: &str) -> gomini::RunResult {
    run_cfg(src, &RunConfig::default())
}

fn prog(decls: &str, body: &str) -> String {
    let import = if decls.contains("fmt.") || body.contains("fmt.") { "import (\n    \"fmt\"\n)\n\n" } else { "" };
    format!("package main\n\n{}{}\n\nfunc main() {{\n{}\n}}\n", import, decls, body)
}

fn expect_out(name: &str, decls: &str, body: &str, want: &str) {
    let src = prog(decls, body);
    let r = run(&src);
    assert_eq!(r.exit, Exit::Ok, "{}: exit {:?}\nstderr: {}\n{}", name, r.exit, r.stderr, src);
    assert_eq!(r.stdout_str(), want, "{}\n{}", name, src);
}

#[test]
fn wraparound_each_width() {
    expect_out(
        "int8",
        "",
        "var a int8 = 127\na = a + 1\nvar b int8 = -128\nb = b - 1\nvar c int8 = 100\nc = c * 2\nvar d int8 = -128\nd = -d\nfmt.Println(a, b, c, d)",
        "-128 127 -56 -128\n",
    );
    expect_out("int16", "", "var a int16 = 32767\na = a + 1\nvar b int16 = 300\nb = b * 300\nfmt.Println(a, b)", "-32768 24464\n");
    expect_out(
        "int32",
        "",
        "var a int32 = 2147483647\na = a + 1\nvar b int32 = 65536\nb = b * b\nvar c int32 = -2147483648\nc = c - 1\nfmt.Println(a, b, c)",
        "-2147483648 0 2147483647\n",
    );
    expect_out(
        "int64",
        "",
        "var a int64 = 9223372036854775807\na = a + 1\nvar b int64 = 4294967296\nb = b * b\nfmt.Println(a, b)",
        "-9223372036854775808 0\n",
    );
    expect_out(
        "unsigned",
        "",
        "var a uint8 = 255\na = a + 1\nvar b uint8 = 0\nb = b - 1\nvar c uint16 = 65535\nc = c + 1\nvar d uint32 = 4294967295\nd = d + 1\nvar e uint64 = 18446744073709551615\ne = e + 1\nvar f uint64 = 0\nf = f - 1\nvar g uint8 = 16\ng = g * g\nfmt.Println(a, b, c, d, e, f, g)",
        "0 255 0 0 0 18446744073709551615 0\n",
    );
    expect_out("int", "", "var a int = 9223372036854775807\na = a + 1\nfmt.Println(a)", "-9223372036854775808\n");
}

#[test]
fn division_semantics() {
    expect_out(
        "minint div -1",
        "",
        "var m int32 = -2147483648\nvar n int32 = -1\nvar a int8 = -128\nvar b int8 = -1\nvar x int64 = -9223372036854775808\nvar y int64 = -1\nfmt.Println(m/n, m%n, a/b, a%b, x/y, x%y)",
        "-2147483648 0 -128 0 -9223372036854775808 0\n",
    );
    expect_out(
        "truncation toward zero",
        "",
        "var a int32 = -7\nvar b int32 = 2\nvar c int32 = 7\nvar d int32 = -2\nfmt.Println(a/b, a%b, c/d, c%d)",
        "-3 -1 -3 1\n",
    );
    expect_out("unsigned division", "", "var a uint8 = 250\nvar b uint8 = 7\nvar c uint64 = 18446744073709551615\nvar d uint64 = 10\nfmt.Println(a/b, a%b, c/d, c%d)", "35 5 1844674407370955161 5\n");
    let r = run(&prog("", "fmt.Println(\"before\")\nvar a int32 = 1\nvar b int32 = 0\nfmt.Println(a / b)"));
    assert_eq!(r.stdout_str(), "before\n");
    match &r.exit {
        Exit::Panic { class, msg, goroutine } => {
            assert_eq!(*class, PanicClass::DivideByZero);
            assert_eq!(msg, "runtime error: integer divide by zero");
            assert_eq!(*goroutine, 1);
        }
        other => panic!("{:?}", other),
    }
    assert!(r.stderr.starts_with("panic: runtime error: integer divide by zero\n\ngoroutine 1 [running]:\n"));
    assert_eq!(r.exit_status(), 2);
    // float division by zero does not panic
    expect_out("float division", "", "var a float64 = 1\nvar z float64 = 0\nfmt.Println(a/z, -a/z, z/z)", "+Inf -Inf NaN\n");
}

#[test]
fn floats() {
    expect_out(
        "float32 rounding per operation",
        "",
        "var a float32 = 0.1\nvar b float32 = 0.2\nvar c float64 = 0.1\nvar d float64 = 0.2\nfmt.Println(a+b, c+d)",
        "0.3 0.30000000000000004\n",
    );
    // constant expressions are evaluated exactly
    expect_out("exact constants", "", "var x float64 = 0.1 + 0.2\nfmt.Println(x, 0.1+0.2, float32(0.1)+float32(0.2))", "0.3 0.3 0.3\n");
    expect_out(
        "float formatting",
        "",
        "var a float64 = 1e21\nvar b float64 = 1e20\nvar c float64 = 100000.0\nvar d float64 = 1e-5\nvar e float32 = 3.4028235e38\nvar f float64 = 1000000.0\nvar g float64 = 123456789.0\nvar h float64 = 0.0001\nvar i float32 = 16777216.0\nvar j float64 = 2\nfmt.Println(a, b, c, d, e, f, g, h, i, j)",
        "1e+21 1e+20 100000 1e-05 3.4028235e+38 1e+06 1.23456789e+08 0.0001 1.6777216e+07 2\n",
    );
    expect_out("float32 precision loss", "", "var i float32 = 16777216.0\nvar one float32 = 1\nfmt.Println(i+one == i)", "true\n");
    expect_out("printf floats", "", "var x float64 = 3.14159\nvar y float32 = 2.5\nfmt.Printf(\"%.2f %f %v %g %e %8.3f|\\n\", x, y, y, x, x, x)", "3.14 2.500000 2.5 3.14159 3.141590e+00    3.142|\n");
    expect_out("negative zero", "", "var z float64 = 0\nvar n float64 = -z\nfmt.Println(n, z)", "-0 0\n");
    expect_out("nan comparisons", "", "var z float64 = 0\nvar n float64 = z / z\nfmt.Println(n == n, n != n, n < n, n >= n)", "false true false false\n");
}

#[test]
fn constant_expressions() {
    expect_out("untyped folding", "", "fmt.Println(7/2, 7/2.0, -5/2, 1<<10, 7%3, 'a', 'a'+1)", "3 3.5 -2 1024 1 97 98\n");
    expect_out("big intermediate", "", "var x int32 = (1 << 40) >> 38\nvar y int64 = 1000000000000 * 1000000 / 1000000000000\nfmt.Println(x, y)", "4 1000000\n");
    expect_out("const division exact", "", "var x float64 = 1 / 3.0\nvar y float32 = 1 / 3.0\nfmt.Println(x, y)", "0.3333333333333333 0.33333334\n");
    expect_out("string constants", "", "var s string = \"ab\" + \"cd\"\nfmt.Println(s, len(\"héllo\"), \"a\" < \"b\")", "abcd 6 true\n");
    expect_out("typed constants", "", "var x int8 = int8(100) + int8(27)\nvar y uint8 = ^uint8(0)\nvar z int32 = -5 / 2\nfmt.Println(x, y, z)", "127 255 -2\n");
}

#[test]
fn slices_and_aliasing() {
    let src = prog(
        "",
        "var v []int32\nv = append(v, 1)\nfmt.Println(len(v), cap(v))\nv = append(v, 2)\nfmt.Println(len(v), cap(v))\nv = append(v, 3)\nfmt.Println(len(v), cap(v))\nvar a []int32 = append(v, 10)\nvar b []int32 = append(v, 20)\nfmt.Println(a[3], b[3], len(a), cap(a), len(v))",
    );
    let r = run(&src);
    assert_eq!(r.exit, Exit::Ok);
    assert_eq!(r.stdout_str(), "1 2\n2 2\n3 4\n20 20 4 4 3\n");
    let forks = r.events.iter().filter(|e| matches!(e, Event::SliceFork { .. })).count();
    assert_eq!(forks, 1);
    expect_out(
        "growth of int64 and byte slices",
        "",
        "var v []int64\nvar i int64 = 0\nfor i < 6 {\nv = append(v, i)\nfmt.Print(cap(v), \" \")\ni = i + 1\n}\nvar b []uint8\nb = append(b, 1)\nvar s []string\ns = append(s, \"x\")\nvar t []int16\nt = append(t, 1)\nfmt.Println(cap(b), cap(s), cap(t))",
        "1 2 4 4 8 8 8 1 4\n",
    );
    expect_out("append several", "", "var v []int64\nv = append(v, 1, 2, 3, 4, 5)\nfmt.Println(len(v), cap(v))\nv = append(v, 6, 7)\nfmt.Println(len(v), cap(v))", "5 6\n7 12\n");
    expect_out(
        "no aliasing after reallocation",
        "",
        "var v []int32 = []int32{1, 2}\nvar a []int32 = append(v, 3)\nvar b []int32 = append(v, 4)\na[0] = 9\nfmt.Println(v[0], a[0], b[0], a[2], b[2])",
        "1 9 1 3 4\n",
    );
    expect_out("shared backing array", "", "var v []int32 = []int32{1, 2, 3}\nvar w []int32 = v\nw[1] = 7\nfmt.Println(v[1], len(w), cap(w), v == nil)", "7 3 3 false\n");
    expect_out("nil and empty slices", "", "var v []int32\nvar e []int32 = []int32{}\nfmt.Println(v == nil, e == nil, len(v), len(e), cap(e))", "true false 0 0 0\n");
    expect_out("make", "", "var v []int32 = make([]int32, 2, 5)\nvar w []int32 = append(v, 7)\nfmt.Println(len(v), cap(v), len(w), cap(w), w[2], v[0])", "2 5 3 5 7 0\n");
    expect_out(
        "large growth",
        "",
        "var v []int64\nvar i int64 = 0\nfor i < 600 {\nv = append(v, i)\nif i == 256 {\nfmt.Println(cap(v))\n}\nif i == 512 {\nfmt.Println(cap(v))\n}\ni = i + 1\n}\nfmt.Println(len(v), v[599])",
        "512\n848\n600 599\n",
    );
}

#[test]
fn values_and_pointers() {
    expect_out(
        "arrays are values",
        "func set(a [3]int32) [3]int32 {\na[0] = 100\nreturn a\n}",
        "var a [3]int32 = [3]int32{1, 2, 3}\nvar b [3]int32 = a\nb[0] = 9\nvar c [3]int32 = set(a)\nfmt.Println(a[0], b[0], c[0], a == b, a == [3]int32{1, 2, 3}, len(a))",
        "1 9 100 false true 3\n",
    );
    expect_out(
        "structs are values, pointers share",
        "type T struct {\nx int32\narr [2]int32\n}\ntype W struct {\nt T\np *T\n}",
        "var a T = T{x: 1}\nvar b T = a\nb.x = 2\nb.arr[1] = 5\nvar p *T = &T{x: 10}\nvar q *T = p\nq.x = 11\nq.arr[0] = 3\nvar w W = W{t: a, p: p}\nw.t.x = 50\nw.p.x = 60\nvar d T = *p\nd.x = 70\nfmt.Println(a.x, b.x, a.arr[1], b.arr[1], p.x, p.arr[0], w.t.x, d.x, p == q, a == b)",
        "1 2 0 5 60 3 50 70 true false\n",
    );
    expect_out(
        "slice of structs",
        "type T struct {\nx int32\n}",
        "var s []T = []T{T{x: 1}, {x: 2}}\ns[1].x = 9\nvar t T = s[1]\nt.x = 0\nfmt.Println(s[0].x, s[1].x, len(s))",
        "1 9 2\n",
    );
    expect_out(
        "new and pointer deref assignment",
        "",
        "var p *int32 = new(int32)\n*p = 5\nvar q *int32 = p\n*q = *q + 1\nfmt.Println(*p, p != nil)",
        "6 true\n",
    );
}

#[test]
fn functions_methods_interfaces() {
    expect_out(
        "func values",
        "type F func(int32) int32\ntype H struct {\nf func(int32) int32\n}\nfunc double(x int32) int32 {\nreturn x * 2\n}\nfunc apply(f func(int32) int32, x int32) int32 {\nreturn f(x)\n}",
        "var f func(int32) int32 = double\nvar g F = double\nvar h H = H{f: double}\nvar n func(int32) int32\nfmt.Println(f(4), g(5), h.f(6), apply(double, 7), n == nil, f != nil)",
        "8 10 12 14 true true\n",
    );
    expect_out(
        "methods and dynamic dispatch",
        "type Shape interface {\narea() int32\nname() string\n}\ntype Sq struct {\ns int32\n}\nfunc (q Sq) area() int32 {\nreturn q.s * q.s\n}\nfunc (_ Sq) name() string {\nreturn \"sq\"\n}\ntype Rect struct {\nw int32\nh int32\n}\nfunc (r Rect) area() int32 {\nreturn r.w * r.h\n}\nfunc (r Rect) name() string {\nreturn \"rect\"\n}",
        "var shapes []Shape = []Shape{Sq{s: 3}, Rect{w: 2, h: 5}, &Sq{s: 4}}\nvar i int32 = 0\nfor i < int32(len(shapes)) {\nfmt.Println(shapes[i].name(), shapes[i].area())\ni = i + 1\n}\nvar p *Rect = &Rect{w: 1, h: 1}\nfmt.Println(p.area(), Sq{s: 2}.area())",
        "sq 9\nrect 10\nsq 16\n1 4\n",
    );
    expect_out(
        "type switch",
        "type A struct {\nv int32\n}\ntype B struct{}\nfunc classify(x any) string {\nswitch v := x.(type) {\ncase nil:\nreturn \"nil\"\ncase int32:\nreturn fmt.Sprintf(\"int32 %d\", v)\ncase string:\nreturn \"string \" + v\ncase A:\nreturn fmt.Sprintf(\"A %d\", v.v)\ncase B, *B:\nreturn \"B-ish\"\ndefault:\nreturn \"other\"\n}\n}",
        "fmt.Println(classify(nil), classify(int32(5)), classify(\"s\"), classify(A{v: 7}), classify(B{}), classify(&B{}), classify(int64(1)), classify(1.5))",
        "nil int32 5 string s A 7 B-ish B-ish other other\n",
    );
    expect_out(
        "interface equality",
        "type P struct {\nx int32\ny string\n}",
        "var a any = int32(1)\nvar b any = int32(1)\nvar c any = int64(1)\nvar d any = \"s\"\nvar e any = \"s\"\nvar f any = P{x: 1, y: \"k\"}\nvar g any = P{x: 1, y: \"k\"}\nvar h any\nvar i any = 1\nfmt.Println(a == b, a == c, d == e, f == g, h == nil, a == nil, a != c, i == 1, a == int32(1))",
        "true false true true true false true true true\n",
    );
    expect_out(
        "assertions",
        "type I interface {\nm() int32\n}\ntype T struct{}\nfunc (_ T) m() int32 {\nreturn 3\n}",
        "var x any = T{}\nvar i I = x.(I)\nvar t T = x.(T)\nvar y any = int32(9)\nfmt.Println(i.m(), t.m(), y.(int32)+1)",
        "3 3 10\n",
    );
}

#[test]
fn control_flow() {
    expect_out(
        "switch without fallthrough, default in the middle",
        "func f(x int32) string {\nswitch x {\ncase 1, 2:\nreturn \"low\"\ndefault:\nreturn \"other\"\ncase 3:\nreturn \"three\"\n}\n}",
        "fmt.Println(f(1), f(2), f(3), f(4))\nvar n int32 = 0\nswitch {\ncase n > 0:\nfmt.Println(\"pos\")\ncase n == 0:\nfmt.Println(\"zero\")\nfmt.Println(\"still zero\")\ncase n <= 0:\nfmt.Println(\"not reached\")\n}",
        "low low three other\nzero\nstill zero\n",
    );
    expect_out(
        "loops",
        "",
        "var sum int32 = 0\nfor i := int32(0); i < 10; i++ {\nif i%2 == 0 {\ncontinue\n}\nif i > 7 {\nbreak\n}\nsum += i\n}\nvar k int32 = 0\nfor k < 3 {\nk++\n}\nvar j int32 = 10\nfor {\nj -= 3\nif j < 0 {\nbreak\n}\n}\nfmt.Println(sum, k, j)",
        "16 3 -2\n",
    );
    expect_out(
        "break inside switch inside loop",
        "",
        "var i int32 = 0\nvar hits int32 = 0\nfor i < 5 {\ni = i + 1\nswitch i {\ncase 2:\nbreak\ncase 4:\ncontinue\n}\nhits = hits + 1\n}\nfmt.Println(i, hits)",
        "5 4\n",
    );
    expect_out(
        "short circuit",
        "type C struct {\nn int32\n}\nfunc bump(c *C, r bool) bool {\nc.n = c.n + 1\nreturn r\n}",
        "var c *C = &C{}\nvar a bool = bump(c, false) && bump(c, true)\nvar b bool = bump(c, true) || bump(c, true)\nvar d bool = bump(c, true) && bump(c, false)\nfmt.Println(a, b, d, c.n)",
        "false true false 4\n",
    );
    expect_out(
        "if else chains and scopes",
        "",
        "var x int32 = 5\nif y := x * 2; y > 8 {\nvar x int32 = 1\nfmt.Println(\"big\", y, x)\n} else if y > 4 {\nfmt.Println(\"mid\")\n} else {\nfmt.Println(\"small\")\n}\nfmt.Println(x)",
        "big 10 1\n5\n",
    );
    expect_out("recursion", "func fib(n int32) int32 {\nif n < 2 {\nreturn n\n}\nreturn fib(n-1) + fib(n-2)\n}", "fmt.Println(fib(20))", "6765\n");
}

#[test]
fn shifts_and_bit_operations() {
    expect_out(
        "shifts",
        "",
        "var x int32 = 1\nvar u uint8 = 200\nvar y int32 = -8\nvar s uint32 = 40\nvar z uint32 = 4294967295\nvar one int32 = 1\nfmt.Println(x<<31, u<<1, y>>1, x<<s, z>>31, y>>s, x<<one, u>>3)",
        "-2147483648 144 -4 0 1 -1 2 25\n",
    );
    expect_out(
        "bit operations",
        "",
        "var a int32 = 12\nvar b int32 = 10\nvar c uint8 = 240\nfmt.Println(a&b, a|b, a^b, a&^b, ^a, ^c)",
        "8 14 6 4 -13 15\n",
    );
}

#[test]
fn conversions() {
    expect_out(
        "integer conversions",
        "",
        "var a int64 = 4294967297\nvar b int32 = -1\nvar c uint8 = 200\nvar d int64 = -1\nfmt.Println(int32(a), uint8(b), int8(c), uint64(d), uint32(b), int64(c), int16(a))",
        "1 255 -56 18446744073709551615 4294967295 200 1\n",
    );
    expect_out(
        "float conversions",
        "",
        "var f float64 = 3.9\nvar g float64 = -3.9\nvar i int64 = 9007199254740993\nvar h float32 = 0.1\nvar k int32 = 16777217\nfmt.Println(int32(f), int32(g), float64(i), float64(h), float32(k), uint8(f))",
        "3 -3 9.007199254740992e+15 0.10000000149011612 1.6777216e+07 3\n",
    );
    expect_out(
        "string conversions",
        "",
        "var s string = \"h\\u00e9\"\nvar r int32 = 20013\nvar b uint8 = 65\nfmt.Println(len(s), s[1], string(s[1]), string(r), string(b), len(string(s[1])))",
        "3 195 Ã 中 A 2\n",
    );
    expect_out("named types", "type Celsius float64\ntype ID int32", "var c Celsius = 36.6\nvar i ID = 7\nfmt.Println(c, i, float64(c)+1, ID(3)+i)\nfmt.Printf(\"%d %v\\n\", c, i)", "36.6 7 37.6 10\n%!d(main.Celsius=36.6) 7\n");
}

#[test]
fn fmt_behaviour() {
    expect_out("print spacing", "", "fmt.Print(\"a\", 1, 2, \"b\", \"c\", 3.5, true, false)\nfmt.Println()\nfmt.Println(\"a\", 1, 2, \"b\", \"c\", 3.5)\nfmt.Print(1, 2)\nfmt.Print(\"\\n\")", "a1 2bc3.5 true false\na 1 2 b c 3.5\n1 2\n");
    expect_out(
        "bad verbs",
        "",
        "var f float32 = 3.5\nvar i int32 = 5\nfmt.Printf(\"%d|%d|%d|%s|%t|%x\\n\", f, \"hi\", true, i, i, \"hi\")\nfmt.Printf(\"%d %d\\n\", 1)\nfmt.Printf(\"%d\\n\", 1, 2)\nfmt.Printf(\"%!|%z|100%%\\n\", 1)",
        "%!d(float32=3.5)|%!d(string=hi)|%!d(bool=true)|%!s(int32=5)|%!t(int32=5)|6869\n1 %!d(MISSING)\n1\n%!(EXTRA int=2)%!!(int=1)|%!z(MISSING)|100%\n",
    );
    expect_out(
        "quote",
        "",
        "fmt.Printf(\"%q %q %q %q %q %q %q\\n\", \"a\\tb\", \"\\x7f\", \"\\u00e9\", \" \", \"\\U0001F600\", \"\\xff\", \"q\\\"\\\\\")\nvar s string = fmt.Sprintf(\"%q\", \"line\\n\")\nfmt.Println(s, len(s))",
        "\"a\\tb\" \"\\x7f\" \"é\" \" \" \"😀\" \"\\xff\" \"q\\\"\\\\\"\n\"line\\n\" 8\n",
    );
    expect_out("widths", "", "fmt.Printf(\"%5d|%-5d|%05d|%x|%X|%5s|%-5s|%+d\\n\", 42, 42, -42, 255, 255, \"ab\", \"ab\", 7)", "   42|42   |-0042|ff|FF|   ab|ab   |+7\n");
    expect_out("sprint", "", "var s string = fmt.Sprint(\"a\", 1, 2, \"b\") + fmt.Sprintln(\"x\", 3) + fmt.Sprintf(\"%v-%v\", true, \"t\")\nfmt.Print(s)", "a1 2bx 3\ntrue-t");
    expect_out("escapes in literals", "", "fmt.Println(\"a\\tb\\\\c\\\"d\\x41\\101\\u00e9\", `raw\\n`, len(\"\\a\\b\\f\\n\\r\\t\\v\"))", "a\tb\\c\"dAAé raw\\n 7\n");
}

#[test]
fn runtime_panics() {
    let r = run(&prog("", "fmt.Println(\"out\")\nvar s []int32 = []int32{1, 2, 3}\nvar i int32 = 5\nfmt.Println(s[i])"));
    assert_eq!(r.stdout_str(), "out\n");
    assert!(r.stderr.starts_with("panic: runtime error: index out of range [5] with length 3\n\ngoroutine 1 [running]:\n"), "{}", r.stderr);
    assert!(matches!(r.exit, Exit::Panic { class: PanicClass::IndexOutOfRange, .. }));

    let r = run(&prog("", "var a [3]int32\nvar i int32 = -1\nfmt.Println(a[i])"));
    assert!(r.stderr.starts_with("panic: runtime error: index out of range [-1]\n\ngoroutine 1 [running]:\n"), "{}", r.stderr);

    let r = run(&prog("", "var s string = \"abc\"\nvar i int32 = 3\nfmt.Println(s[i])"));
    assert!(r.stderr.starts_with("panic: runtime error: index out of range [3] with length 3\n"), "{}", r.stderr);

    let r = run(&prog("type T struct {\nx int32\n}", "var p *T\nfmt.Println(p.x)"));
    assert!(r.stderr.starts_with("panic: runtime error: invalid memory address or nil pointer dereference\n"), "{}", r.stderr);
    assert!(matches!(r.exit, Exit::Panic { class: PanicClass::NilDeref, .. }));

    let r = run(&prog("type Foo struct{}\ntype Bar struct{}", "var x any = Foo{}\nvar b Bar = x.(Bar)\n_ = b"));
    assert!(r.stderr.starts_with("panic: interface conversion: interface {} is main.Foo, not main.Bar\n\ngoroutine 1 [running]:\n"), "{}", r.stderr);
    assert!(matches!(r.exit, Exit::Panic { class: PanicClass::TypeAssertion, .. }));

    let r = run(&prog("type I interface {\nm()\n}\ntype A struct{}\nfunc (_ A) m() {}\ntype B struct{}\nfunc (_ B) m() {}", "var x I = A{}\nvar b B = x.(B)\n_ = b"));
    assert!(r.stderr.starts_with("panic: interface conversion: main.I is main.A, not main.B\n"), "{}", r.stderr);

    let r = run(&prog("", "var x any\nvar b int32 = x.(int32)\n_ = b"));
    assert!(r.stderr.starts_with("panic: interface conversion: interface {} is nil, not int32\n"), "{}", r.stderr);

    let r = run(&prog("", "fmt.Println(\"a\")\npanic(\"boom\")"));
    assert_eq!(r.stdout_str(), "a\n");
    assert!(r.stderr.starts_with("panic: boom\n\ngoroutine 1 [running]:\nmain.main()\n"), "{}", r.stderr);
    assert!(matches!(r.exit, Exit::Panic { class: PanicClass::Explicit, .. }));
    assert_eq!(r.exit_status(), 2);

    let r = run(&prog("", "var a any = []int32{1}\nvar b any = []int32{1}\nfmt.Println(a == b)"));
    assert!(r.stderr.starts_with("panic: runtime error: comparing uncomparable type []int32\n"), "{}", r.stderr);
    assert!(matches!(r.exit, Exit::Panic { class: PanicClass::UncomparableInterface, .. }));

    // assignment evaluates the right-hand side before the index check
    let r = run(&prog("func f() int32 {\nfmt.Println(\"rhs\")\nreturn 1\n}", "var s []int32\nvar i int32 = 2\ns[i] = f()"));
    assert_eq!(r.stdout_str(), "rhs\n");
    assert!(matches!(r.exit, Exit::Panic { class: PanicClass::IndexOutOfRange, .. }));

    // builtin println goes to stderr
    let r = run(&prog("", "println(\"to stderr\", 1, true, 1.5)\nprint(\"x\", 2)\nfmt.Println(\"to stdout\")"));
    assert_eq!(r.exit, Exit::Ok);
    assert_eq!(r.stdout_str(), "to stdout\n");
    assert_eq!(r.stderr, "to stderr 1 true +1.500000e+000\nx2");
}

#[test]
fn budget_and_depth() {
    let cfg = RunConfig { step_budget: 100_000, ..Default::default() };
    let r = run_cfg(&prog("", "for {\n}"), &cfg);
    assert_eq!(r.exit, Exit::Budget);
    let r = run_cfg(&prog("func f(n int32) int32 {\nreturn f(n+1) + 1\n}", "fmt.Println(f(0))"), &RunConfig::default());
    assert_eq!(r.exit, Exit::Budget);
    let cfg = RunConfig { max_output: 1000, ..Default::default() };
    let r = run_cfg(&prog("", "for {\nfmt.Println(\"spam spam spam\")\n}"), &cfg);
    assert_eq!(r.exit, Exit::Budget);
    // deep but legal recursion
    expect_out("deep recursion", "func depth(n int32) int32 {\nif n == 0 {\nreturn 0\n}\nreturn depth(n-1) + 1\n}", "fmt.Println(depth(50000))", "50000\n");
    // long list equality without native recursion
    expect_out(
        "deep structure equality",
        "type List interface {\nisList()\n}\ntype Nil struct{}\nfunc (_ Nil) isList() {}\ntype Cons struct {\nhead int32\ntail List\n}\nfunc (_ Cons) isList() {}\nfunc build(n int32) List {\nvar l List = Nil{}\nvar i int32 = 0\nfor i < n {\nl = Cons{head: i, tail: l}\ni = i + 1\n}\nreturn l\n}",
        "var a List = build(200000)\nvar b List = build(200000)\nfmt.Println(a == b)",
        "true\n",
    );
}

const SPIN: &str = r#"package main

import (
    "fmt"
)

type ref_int32_x struct {
    value int32
}

func ref__Ref_int32(value int32) *ref_int32_x {
    return &ref_int32_x{
        value: value,
    }
}

func ref_get__Ref_int32(reference *ref_int32_x) int32 {
    return reference.value
}

func ref_set__Ref_int32(reference *ref_int32_x, value int32) struct{} {
    reference.value = value
    return struct{}{}
}

func worker(flag *ref_int32_x, acc *ref_int32_x, n int32) struct{} {
    var i int32 = 0
    for i < n {
        var cur int32 = ref_get__Ref_int32(acc)
        ref_set__Ref_int32(acc, cur + 1)
        i = i + 1
    }
    var done int32 = ref_get__Ref_int32(flag)
    ref_set__Ref_int32(flag, done + 1)
    return struct{}{}
}

func main() {
    var flag *ref_int32_x = ref__Ref_int32(0)
    var acc *ref_int32_x = ref__Ref_int32(0)
    go worker(flag, acc, 3)
    for {
        var f int32 = ref_get__Ref_int32(flag)
        if f >= 1 {
            break
        }
    }
    fmt.Println("done", ref_get__Ref_int32(acc))
}
"#;

#[test]
fn goroutine_spin_wait_all_schedulers() {
    let file = gomini::parse(SPIN).unwrap();
    assert!(gomini::vet(&file).ok());
    let mut scheds = vec![Sched::Deterministic, Sched::Script(vec![]), Sched::Script(vec![1, 0, 1, 0, 1, 1, 1])];
    for seed in 0..20 {
        scheds.push(Sched::Random { seed });
    }
    for s in scheds {
        let cfg = RunConfig { sched: s.clone(), step_budget: 1_000_000, ..Default::default() };
        let r = gomini::run(&file, &cfg);
        assert_eq!(r.exit, Exit::Ok, "{:?}", s);
        assert_eq!(r.stdout_str(), "done 3\n", "{:?}", s);
        let news = r.events.iter().filter(|e| matches!(e, Event::RefNew(_))).count();
        assert_eq!(news, 2);
        assert!(r.events.contains(&Event::RefNew(0)) && r.events.contains(&Event::RefNew(1)));
        assert!(r.events.contains(&Event::Spawn(2)));
        assert!(r.events.iter().any(|e| *e == Event::RefSet(1)));
        // replaying the recorded choices reproduces the run
        let replay = RunConfig { sched: Sched::Script(r.sched_choices.iter().map(|c| c.1).collect()), step_budget: 1_000_000, ..Default::default() };
        let r2 = gomini::run(&file, &replay);
        assert_eq!(r2.stdout, r.stdout);
        assert_eq!(r2.sched_choices, r.sched_choices);
        assert_eq!(r2.events, r.events);
    }
}

#[test]
fn schedule_enumeration_finds_the_race() {
    // two goroutines doing a non-atomic increment each: final value 1 or 2
    let src = SPIN
        .replace("go worker(flag, acc, 3)", "go worker(flag, acc, 1)\n    go worker(flag, acc, 1)")
        .replace("if f >= 1 {", "if f >= 2 {");
    let file = gomini::parse(&src).unwrap();
    assert!(gomini::vet(&file).ok());
    let base = RunConfig { step_budget: 200_000, ..Default::default() };
    let runs = gomini::enumerate_schedules_bounded(&file, &base, 3000, 14);
    let mut outs: Vec<String> = runs.iter().filter(|r| r.exit == Exit::Ok).map(|r| r.stdout_str()).collect();
    outs.sort();
    outs.dedup();
    assert!(outs.contains(&"done 2\n".to_string()), "{:?}", outs);
    assert!(outs.contains(&"done 1\n".to_string()), "lost update not found: {:?}", outs);
    assert!(outs.len() == 2, "{:?}", outs);
}

#[test]
fn main_exit_abandons_goroutines() {
    let src = prog("func noisy() {\nfor {\nfmt.Println(\"child\")\n}\n}", "go noisy()\nfmt.Println(\"main done\")");
    let r = run(&src);
    assert_eq!(r.exit, Exit::Ok);
    assert_eq!(r.stdout_str(), "main done\n");
}

#[test]
fn trace_calls() {
    let cfg = RunConfig { trace_calls: true, ..Default::default() };
    let r = run_cfg(&prog("func f() {}\nfunc g() {\nf()\n}", "g()"), &cfg);
    let calls: Vec<&Event> = r.events.iter().filter(|e| matches!(e, Event::Call(_))).collect();
    assert_eq!(calls, vec![&Event::Call("g".to_string()), &Event::Call("f".to_string())]);
}

#[test]
fn unsupported_is_reported() {
    for (body, decls) in [
        ("var x int32 = 1\nvar p *int32 = &x\n_ = p", ""),
        ("var d time_like = 1\nfmt.Println(d)", "type time_like int64\nfunc (t time_like) String() string {\nreturn \"x\"\n}"),
        ("type_p := P{x: 1}\nfmt.Println(type_p)", "type P struct {\nx int32\n}"),
        ("var f float64 = 1e300\nfmt.Println(int32(f))", ""),
    ] {
        let src = prog(decls, body);
        let file = gomini::parse(&src).unwrap();
        let rep = gomini::vet(&file);
        assert!(rep.errors.is_empty(), "{:?}\n{}", rep.errors, src);
        let r = gomini::run(&file, &RunConfig::default());
        assert!(matches!(r.exit, Exit::Unsupported(_)), "{:?}\n{}", r.exit, src);
    }
    // constructs outside the subset are Unsupported at parse time
    for src in [
        "package main\nfunc main() { m := map[string]int{}\n_ = m }\n",
        "package main\nfunc main() { defer f() }\n",
        "package main\nfunc main() { f := func() {}\nf() }\n",
        "package main\nfunc main() { for i := range x {} }\n",
        "package main\nconst x = 1\nfunc main() {}\n",
        "package main\nfunc f[T any](x T) {}\nfunc main() {}\n",
        "package main\nfunc main() { var c chan int\n_ = c }\n",
        "package main\nfunc main() { s := []int{1}\n_ = s[0:1] }\n",
    ] {
        match gomini::parse(src) {
            Err(gomini::ParseError::Unsupported { .. }) => {}
            other => panic!("expected Unsupported for {:?}, got {:?}", src, other.map(|_| ())),
        }
    }
}
