#!/usr/bin/env python3
"""Regenerates the generated tables of DESIGN.md (between <!-- BEGIN GENERATED:x --> / <!-- END GENERATED:x --> markers)
from known_findings.jsonl, seeded/*/meta.json and seeded/MATRIX.tsv."""
import json, re, glob, os, collections
root='/verif'
def fixes_table():
    rows=[]
    for l in open(f'{root}/known_findings.jsonl'):
        if l.startswith('fixed:'):
            m=re.match(r'fixed: property=(\S+) (\S+) (.*)', l.strip())
            if m: rows.append(m.groups())
    out=['| property | commit | what failed |','|---|---|---|']
    for p,c,w in rows:
        w2=w.replace("|","&#124;")
        out.append(f'| {p} | `{c}` | {w2} |')
    return '\n'.join(out)
def known_table():
    out=['| property | id | signature the check matches | what fails | witness |','|---|---|---|---|---|']
    for l in open(f'{root}/known_findings.jsonl'):
        l=l.strip()
        if l.startswith('{'):
            d=json.loads(l)
            if d.get('status')=='known':
                summ=d['summary'].replace('|','&#124;')
                out.append(f"| {d['property']} | {d['id']} | `{d['signature']}` | {summ} | `{d.get('witness','')}` |")
    return '\n'.join(out)
def matrix_table():
    rows=[]
    p=f'{root}/seeded/MATRIX.tsv'
    if os.path.exists(p):
        rows=[l.rstrip('\n').split('\t') for l in open(p) if l.strip()]
    by=collections.OrderedDict()
    for name,chk,tier,verdict,sig in rows:
        by.setdefault(name,[]).append((chk,verdict,sig))
    out=['| seeded change | what it does | own check | other checks run against it |','|---|---|---|---|']
    for d in sorted(glob.glob(f'{root}/seeded/C*/')):
        name=os.path.basename(d.rstrip('/'))
        try: meta=json.load(open(d+'meta.json'))
        except Exception: meta={}
        summ=meta.get('summary','').split('. ')[0][:260].replace('|','&#124;')
        prop=name.split('-')[0]
        own='not run'; others=[]
        for chk,verdict,sig in by.get(name,[]):
            cell=f"{chk}: **{verdict}**" + (f" (`{sig[:70]}`)" if sig else '')
            if chk==prop: own=cell
            else: others.append(cell)
        out.append(f"| `{name}` | {summ} | {own} | {'; '.join(others) or '-'} |")
    return '\n'.join(out)
gen={'fixes':fixes_table(),'known':known_table(),'matrix':matrix_table()}
s=open(f'{root}/DESIGN.md').read()
for k,v in gen.items():
    s=re.sub(rf'<!-- BEGIN GENERATED:{k} -->.*?<!-- END GENERATED:{k} -->', lambda m: f'<!-- BEGIN GENERATED:{k} -->\n{v}\n<!-- END GENERATED:{k} -->', s, flags=re.S)
open(f'{root}/DESIGN.md','w').write(s)
print('tables regenerated')
