//! Interpreter: public run API, scheduler configuration, results.

pub mod code;
pub mod compile;
pub mod grow;
pub mod vm;

use crate::ast::File;

#[derive(Clone, Debug, PartialEq)]
pub enum Sched {
    /// keep running the current goroutine; switch when it ends, or at a loop
    /// back-edge when another goroutine is runnable
    Deterministic,
    /// uniform choice at every yield point, every runnable goroutine runs
    /// within 64 yields
    Random { seed: u64 },
    /// i-th choice point (more than one runnable goroutine) picks
    /// `script[i] % n`; past the end of the script the Deterministic policy
    /// decides. All choices are recorded in `RunResult::sched_choices`.
    Script(Vec<u32>),
}

#[derive(Clone, Debug)]
pub struct RunConfig {
    pub step_budget: u64,
    pub sched: Sched,
    pub max_output: usize,
    pub trace_calls: bool,
}

impl Default for RunConfig {
    fn default() -> Self {
        RunConfig { step_budget: 50_000_000, sched: Sched::Deterministic, max_output: 16 << 20, trace_calls: false }
    }
}

#[derive(Clone, Copy, Debug, PartialEq, Eq)]
pub enum PanicClass {
    DivideByZero,
    IndexOutOfRange,
    NilDeref,
    TypeAssertion,
    Explicit,
    UncomparableInterface,
    Other,
}

#[derive(Clone, Debug, PartialEq)]
pub enum Exit {
    Ok,
    Panic { class: PanicClass, msg: String, goroutine: u32 },
    Deadlock,
    Budget,
    Unsupported(String),
}

#[derive(Clone, Debug, PartialEq)]
pub enum Event {
    Print(String),
    RefNew(u64),
    RefGet(u64),
    RefSet(u64),
    Spawn(u32),
    Call(String),
    SliceFork { line: u32 },
    Yield,
    /// an append grew a backing array whose new capacity differs between Go
    /// releases (pointerful elements above 512 bytes, or the large-object
    /// boundary); the capacity of Go >= 1.22 was used
    GrowUncertain { line: u32 },
}

#[derive(Clone, Debug)]
pub struct RunResult {
    /// bytes written to standard output
    pub stdout: Vec<u8>,
    /// text written to standard error (builtin println, panic report)
    pub stderr: String,
    pub exit: Exit,
    pub events: Vec<Event>,
    pub steps: u64,
    /// (number of runnable goroutines, index chosen among them ordered by id)
    pub sched_choices: Vec<(u32, u32)>,
}

impl RunResult {
    pub fn stdout_str(&self) -> String {
        String::from_utf8_lossy(&self.stdout).into_owned()
    }
    /// Process exit status as `go run` / the binary would report it.
    pub fn exit_status(&self) -> i32 {
        match &self.exit {
            Exit::Ok => 0,
            Exit::Panic { .. } | Exit::Deadlock => 2,
            Exit::Budget | Exit::Unsupported(_) => 3,
        }
    }
}

fn early(exit: Exit) -> RunResult {
    RunResult { stdout: Vec::new(), stderr: String::new(), exit, events: Vec::new(), steps: 0, sched_choices: Vec::new() }
}

/// A checked and compiled program, ready to be executed several times.
pub struct Prepared {
    info: crate::vet::Info,
    prog: code::Program,
}

/// Type-checks and compiles; Err carries the Unsupported outcome.
pub fn prepare(file: &File) -> Result<Prepared, Exit> {
    let (report, info) = crate::vet::check(file);
    if let Some(e) = report.errors.first() {
        return Err(Exit::Unsupported(format!("program does not type-check: line {}: [{}] {}", e.line, e.kind, e.msg)));
    }
    if let Some(u) = report.unsupported.first() {
        return Err(Exit::Unsupported(format!("checker: {}", u)));
    }
    match compile::compile(file, &info) {
        Ok(prog) => Ok(Prepared { info, prog }),
        Err(e) => Err(Exit::Unsupported(e)),
    }
}

impl Prepared {
    pub fn run(&self, cfg: &RunConfig) -> RunResult {
        vm::execute(&self.prog, &self.info, cfg)
    }
}

/// Runs the program on the calling thread (see `crate::run` for the variant
/// that uses a dedicated big-stack thread).
pub fn run_inline(file: &File, cfg: &RunConfig) -> RunResult {
    match prepare(file) {
        Ok(p) => p.run(cfg),
        Err(e) => early(e),
    }
}

/// Enumerates schedules by replaying script prefixes. Alternatives are
/// explored in order of increasing number of deviations from the default
/// (Deterministic) choices, then by position of the last deviation, so that
/// schedules with few preemptions come first. Only the first `max_depth`
/// choice points of a run are branched on.
pub fn enumerate_inline(file: &File, base: &RunConfig, max_runs: usize, max_depth: usize) -> Vec<RunResult> {
    let prepared = match prepare(file) {
        Ok(p) => p,
        Err(e) => return vec![early(e)],
    };
    let mut results = Vec::new();
    // (deviations, prefix)
    let mut work: std::collections::BTreeSet<(usize, usize, Vec<u32>)> = std::collections::BTreeSet::new();
    work.insert((0, 0, Vec::new()));
    while let Some(item) = work.iter().next().cloned() {
        work.remove(&item);
        if results.len() >= max_runs {
            break;
        }
        let (devs, _, prefix) = item;
        let cfg = RunConfig { step_budget: base.step_budget, sched: Sched::Script(prefix.clone()), max_output: base.max_output, trace_calls: base.trace_calls };
        let r = prepared.run(&cfg);
        let upto = r.sched_choices.len().min(max_depth);
        for i in prefix.len()..upto {
            let (n, chosen) = r.sched_choices[i];
            for alt in 0..n {
                if alt == chosen {
                    continue;
                }
                let mut p: Vec<u32> = r.sched_choices[..i].iter().map(|c| c.1).collect();
                p.push(alt);
                if work.len() < 200_000 {
                    work.insert((devs + 1, p.len(), p));
                }
            }
        }
        results.push(r);
    }
    results
}
