#!/bin/bash
# background thorough sweep in a vp-run snapshot: build once (while /repo is clean), then call the binary directly
# usage: bg_thorough.sh <seed> [property...]   (VERIF_THOROUGH_SCALE is taken from the environment)
export CARGO_NET_OFFLINE=true
ROOT=$(pwd); export VERIF_ROOT=$ROOT
mkdir -p out evidence
./check setup || exit 3
export VERIF_MIRI=$(grep -q '^MIRI-DRIVER-OK' out/miri_build.log 2>/dev/null && echo 1 || echo 0)
echo "BUILT $(date +%T) miri=$VERIF_MIRI scale=${VERIF_THOROUGH_SCALE:-default}"
SEED="$1"; shift
PROPS="$@"; [ -z "$PROPS" ] && PROPS="C01 C02 C03 C04 C05 C06 C07 C08 C09 C10 C11 C12 C13 C14 C15 C16 C17 C18 C19 C20"
for P in $PROPS; do
  S=$(date +%s)
  VERIF_SEED=$SEED harness/target/verif/goml-verif run $P thorough > out/bg_${P}_${SEED}.log 2>&1; RC=$?
  E=$(date +%s)
  echo "$P thorough seed=$SEED exit=$RC $((E-S))s known=$(grep -c '^KNOWN-FINDING' out/bg_${P}_${SEED}.log) $(grep -E '^VIOLATION|^INCONCLUSIVE' out/bg_${P}_${SEED}.log | head -3 | tr '\n' ' ')"
done
