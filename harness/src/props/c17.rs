//! C17: all call forms of a method agree.
//! Programs over (receiver type x receiver expression form x call form): every call prints
//! code(type) * 1000 + argument + digest(receiver), so each printed number names the implementation that
//! ran. Negative programs: coercion to dyn without an impl, a trait call on a dyn value of another trait,
//! ambiguous method names - must be rejected.
use crate::exec;
use crate::goexec::Term;
use crate::runner::{self, Case, Ctx, PropSpec};
use crate::util::{self, Rng, hash_str};
use crate::capi;
use serde_json::json;

pub static SPEC: PropSpec = PropSpec {
    id: "C17",
    level: "exploration",
    rule: "calls: receiver types {int32, int64, uint8, int8, int16, uint16, uint32, uint64, float32, float64, bool, string, unit, struct, enum, generic struct instance, tuple, nested struct} x receiver expression {variable, literal / struct literal / constructor, field projection, annotated call result} x call form {Tr::m(x, a); t.m(a) through T: Tr; Tr::m(t, a) through T: Tr; Tr::m(d, a) after `let d: dyn Tr = x`; through a `dyn Tr` parameter; element of Vec[dyn Tr] bound to a variable; second trait with the same method name; `impl Tr2 for dyn Tr1`; inherent x.im(a) and T::im(x, a)}; every applicable combination is emitted (a random subset of types per program, all forms) and every call prints the implementation's code; two-package projects in which the trait, five receiver types (struct, enum, generic enum, generic struct, nested struct), their impls and inherent methods live in an imported package and Main uses every call form on variables, annotated call results and parameters of those types. negative: dyn coercion of a type without impl (5 forms), Tr2::m on a `dyn Tr1` without impl, method call through two bounds declaring the same method, unknown method. non-trivial: every executed call; distinct by (type, receiver form, call form)",
    eval_counter: "calls_checked",
    assumptions: &["relative to gomini's execution of the emitted Go; expected values are computed from the templates"],
    crash_is_violation: false,
    stack_mib: 256,
    case_cpu_s: 120,
    shards: 0,
    run,
    floors: &[("calls_checked", 3_000, 100_000), ("programs_agree", 40, 1_500), ("negatives_rejected", 40, 600), ("foreign_projects_agree", 12, 200)],
    finish: None,
};

struct RecvTy {
    name: &'static str,
    /// goml type text
    ty: &'static str,
    /// (expression, digest) pairs usable as literal receivers
    literals: &'static [(&'static str, i64)],
    /// expression computing the digest from `self`
    digest: &'static str,
    has_inherent: bool,
}

const TYPES: &[RecvTy] = &[
    RecvTy { name: "int32", ty: "int32", literals: &[("7", 7), ("0", 0), ("41", 41)], digest: "self", has_inherent: false },
    RecvTy { name: "int64", ty: "int64", literals: &[("5i64", 5), ("90i64", 90)], digest: "(if self > 50i64 { 90 } else { 5 })", has_inherent: false },
    RecvTy { name: "uint8", ty: "uint8", literals: &[("200u8", 200), ("3u8", 3)], digest: "(if self > 100u8 { 200 } else { 3 })", has_inherent: false },
    RecvTy { name: "int8", ty: "int8", literals: &[("7i8", 7), ("100i8", 100)], digest: "(if self > 50i8 { 100 } else { 7 })", has_inherent: false },
    RecvTy { name: "int16", ty: "int16", literals: &[("300i16", 300), ("2i16", 2)], digest: "(if self > 100i16 { 300 } else { 2 })", has_inherent: false },
    RecvTy { name: "uint16", ty: "uint16", literals: &[("7u16", 7), ("60000u16", 600)], digest: "(if self > 100u16 { 600 } else { 7 })", has_inherent: false },
    RecvTy { name: "uint32", ty: "uint32", literals: &[("9u32", 9), ("4000000000u32", 400)], digest: "(if self > 100u32 { 400 } else { 9 })", has_inherent: false },
    RecvTy { name: "uint64", ty: "uint64", literals: &[("11u64", 11), ("18000000000000000000u64", 180)], digest: "(if self > 100u64 { 180 } else { 11 })", has_inherent: false },
    RecvTy { name: "float32", ty: "float32", literals: &[("1.5f32", 15), ("200.0f32", 20)], digest: "(if self > 100.0f32 { 20 } else { 15 })", has_inherent: false },
    RecvTy { name: "float64", ty: "float64", literals: &[("2.5", 25), ("300.0", 30)], digest: "(if self > 100.0 { 30 } else { 25 })", has_inherent: false },
    RecvTy { name: "bool", ty: "bool", literals: &[("true", 1), ("false", 0)], digest: "(if self { 1 } else { 0 })", has_inherent: false },
    RecvTy { name: "string", ty: "string", literals: &[("\"ab\"", 2), ("\"\"", 1)], digest: "(if self == \"ab\" { 2 } else { 1 })", has_inherent: false },
    RecvTy { name: "unit", ty: "unit", literals: &[("()", 0)], digest: "0", has_inherent: false },
    RecvTy { name: "St", ty: "St", literals: &[("St { v: 3 }", 3), ("St { v: 88 }", 88)], digest: "self.v", has_inherent: true },
    RecvTy { name: "En", ty: "En", literals: &[("En::A(6)", 6), ("En::B", 0), ("En::C(2, true)", 3)], digest: "(match self { En::A(k) => k, En::B => 0, En::C(k, b) => if b { k + 1 } else { k } })", has_inherent: true },
    RecvTy { name: "GnI", ty: "Gn[int32]", literals: &[("Gn { it: 9 }", 9)], digest: "self.it", has_inherent: false },
    RecvTy { name: "GnB", ty: "Gn[bool]", literals: &[("Gn { it: true }", 1), ("Gn { it: false }", 0)], digest: "(if self.it { 1 } else { 0 })", has_inherent: false },
    RecvTy { name: "Tup", ty: "(int32, bool)", literals: &[("(4, true)", 5), ("(4, false)", 4)], digest: "(match self { (k, b) => if b { k + 1 } else { k } })", has_inherent: false },
    RecvTy { name: "Nest", ty: "Nest", literals: &[("Nest { inner: St { v: 2 }, tag: 30 }", 32)], digest: "self.inner.v + self.tag", has_inherent: true },
];

const FORMS: &[&str] = &["concrete-ufcs", "generic-dot", "generic-ufcs", "impl-method-bound", "dyn-let", "dyn-param", "dyn-vec-element", "second-trait-same-name", "trait-on-dyn-of-other-trait", "inherent-dot", "inherent-ufcs"];
const RECV_FORMS: &[&str] = &["variable", "literal", "field", "annotated-call"];

struct Built {
    src: String,
    expected: Vec<String>,
    cells: Vec<String>,
}

fn build_program(rng: &mut Rng, type_idx: &[usize]) -> Built {
    let mut s = String::new();
    // `zm` and `m_`: method names that end / start with another method's name, declared around it
    s.push_str("trait Tr1 {\n    fn zm(Self, int32) -> int32;\n    fn m(Self, int32) -> int32;\n    fn m_(Self, int32) -> int32;\n    fn n(Self) -> string;\n}\ntrait Tr2 {\n    fn m(Self, int32) -> int32;\n}\n");
    s.push_str("struct St { v: int32 }\nenum En { A(int32), B, C(int32, bool) }\nstruct Gn[T] { it: T }\nstruct Nest { inner: St, tag: int32 }\n");
    let mut main = String::new();
    let mut expected = Vec::new();
    let mut cells = Vec::new();
    let mut emit = |main: &mut String, expected: &mut Vec<String>, cells: &mut Vec<String>, pre: &str, call: String, val: i64, cell: String| {
        main.push_str(pre);
        main.push_str(&format!("    let _ = string_println(int32_to_string({}));\n", call));
        expected.push(val.to_string());
        cells.push(cell);
    };
    for (k, &ti) in type_idx.iter().enumerate() {
        let t = &TYPES[ti];
        let code = (ti as i64 + 1) * 1000;
        let code2 = (ti as i64 + 1) * 1000 + 500_000;
        let impl1 = format!(
            "impl Tr1 for {ty} {{\n    fn zm(self: {ty}, a: int32) -> int32 {{ 0 - 777 }}\n    fn m(self: {ty}, a: int32) -> int32 {{ {code} + a + {dg} }}\n    fn m_(self: {ty}, a: int32) -> int32 {{ 0 - 888 }}\n    fn n(self: {ty}) -> string {{ \"{nm}\" }}\n}}\n",
            ty = t.ty,
            code = code,
            dg = t.digest,
            nm = t.name
        );
        let impl2 = format!("impl Tr2 for {ty} {{\n    fn m(self: {ty}, a: int32) -> int32 {{ {code2} + a + {dg} }}\n}}\n", ty = t.ty, code2 = code2, dg = t.digest);
        // the second trait's name extends the first one's (Tr1 / Tr1x); its impl comes first for every other type
        if k % 2 == 0 {
            s.push_str(&impl2);
            s.push_str(&impl1);
        } else {
            s.push_str(&impl1);
            s.push_str(&impl2);
        }
        if t.has_inherent {
            s.push_str(&format!("impl {ty} {{\n    fn im(self: {ty}, a: int32) -> int32 {{ {c} + a + {dg} }}\n}}\n", ty = t.ty, c = code + 100_000, dg = t.digest));
        }
        s.push_str(&format!("struct Hold{k} {{ f: {ty} }}\n", k = k, ty = t.ty));
        let (lit, dg) = *rng.pick_ref(t.literals);
        s.push_str(&format!("fn make{k}() -> {ty} {{ {lit} }}\n", k = k, ty = t.ty, lit = lit));
        let mut a = 0i64;
        for rf in RECV_FORMS {
            // how the receiver is written, and statements that have to precede
            let (pre, recv): (String, String) = match *rf {
                "variable" => (format!("    let r{k}v: {ty} = {lit};\n", k = k, ty = t.ty, lit = lit), format!("r{k}v", k = k)),
                "literal" => (String::new(), lit.to_string()),
                "field" => (format!("    let h{k} = Hold{k} {{ f: {lit} }};\n", k = k, lit = lit), format!("h{k}.f", k = k)),
                _ => (format!("    let r{k}c: {ty} = make{k}();\n", k = k, ty = t.ty), format!("r{k}c", k = k)),
            };
            for form in FORMS {
                // coercion sources whose type the typer only learns later are refused by design
                // ("Cannot convert non-concrete type"): field projections and generic struct literals
                let is_dyn_form = matches!(*form, "dyn-let" | "dyn-param" | "dyn-vec-element" | "trait-on-dyn-of-other-trait");
                if is_dyn_form && (*rf == "field" || (*rf == "literal" && t.ty.starts_with("Gn["))) {
                    continue;
                }
                // a dyn value that comes out of vec_get / ref_get / a call cannot be used (recorded finding, probed separately)
                if *form == "dyn-vec-element" {
                    continue;
                }
                a += 1;
                let cell = format!("{}|{}|{}", t.name, rf, form);
                let v = format!("{}x{}", k, a);
                match *form {
                    "concrete-ufcs" => emit(&mut main, &mut expected, &mut cells, &pre, format!("Tr1::m({}, {})", recv, a), code + a + dg, cell),
                    "generic-dot" => emit(&mut main, &mut expected, &mut cells, &pre, format!("g_dot({}, {})", recv, a), code + a + dg, cell),
                    "generic-ufcs" => emit(&mut main, &mut expected, &mut cells, &pre, format!("g_ufcs({}, {})", recv, a), code + a + dg, cell),
                    "impl-method-bound" => emit(&mut main, &mut expected, &mut cells, &pre, format!("hd.hd_dot({r}, {a}) + Hd::hd_path(hd, {r}, 0) + hd.hd_plain({r}, 0)", r = recv, a = a), 3 * (code + dg) + a, cell),
                    "dyn-let" => emit(&mut main, &mut expected, &mut cells, &format!("{}    let d{}: dyn Tr1 = {};\n", pre, v, recv), format!("Tr1::m(d{}, {})", v, a), code + a + dg, cell),
                    "dyn-param" => emit(&mut main, &mut expected, &mut cells, &pre, format!("via_param({}, {})", recv, a), code + a + dg, cell),
                    "dyn-vec-element" => emit(
                        &mut main,
                        &mut expected,
                        &mut cells,
                        &format!("{}    let e{}: dyn Tr1 = {};\n    let vs{}: Vec[dyn Tr1] = vec_push(vec_new(), e{});\n    let el{}: dyn Tr1 = vec_get(vs{}, 0);\n", pre, v, recv, v, v, v, v),
                        format!("Tr1::m(el{}, {})", v, a),
                        code + a + dg,
                        cell,
                    ),
                    "second-trait-same-name" => emit(&mut main, &mut expected, &mut cells, &pre, format!("Tr2::m({}, {}) + g2_dot({}, 0)", recv, a, recv), 2 * (code2 + dg) + a, cell),
                    "trait-on-dyn-of-other-trait" => emit(
                        &mut main,
                        &mut expected,
                        &mut cells,
                        &format!("{}    let o{}: dyn Tr1 = {};\n", pre, v, recv),
                        format!("Tr2::m(o{}, {})", v, a),
                        900_000_000 + a + code + dg,
                        cell,
                    ),
                    "inherent-dot" if t.has_inherent && *rf != "literal" && *rf != "field" => emit(&mut main, &mut expected, &mut cells, &pre, format!("{}.im({})", recv, a), code + 100_000 + a + dg, cell),
                    "inherent-ufcs" if t.has_inherent => emit(&mut main, &mut expected, &mut cells, &pre, format!("{}::im({}, {})", t.ty, recv, a), code + 100_000 + a + dg, cell),
                    _ => {}
                }
            }
        }
        // the string-valued method through two forms
        main.push_str(&format!("    let sv{k}: {ty} = {lit};\n    let sd{k}: dyn Tr1 = sv{k};\n    let _ = string_println(Tr1::n(sv{k}) + \"/\" + Tr1::n(sd{k}) + \"/\" + g_name(sv{k}));\n", k = k, ty = t.ty, lit = lit));
        expected.push(format!("{0}/{0}/{0}", t.name));
        cells.push(format!("{}|variable|name-three-forms", t.name));
    }
    s.push_str("impl Tr2 for dyn Tr1 {\n    fn m(self: dyn Tr1, a: int32) -> int32 { 900000000 + a + Tr1::m(self, 0) }\n}\n");
    s.push_str("fn g_dot[T: Tr1](t: T, a: int32) -> int32 { t.m(a) }\nfn g_ufcs[T: Tr1](t: T, a: int32) -> int32 { Tr1::m(t, a) }\nfn g2_dot[T: Tr2](t: T, a: int32) -> int32 { t.m(a) }\nfn g_name[T: Tr1](t: T) -> string { t.n() }\nfn via_param(d: dyn Tr1, a: int32) -> int32 { Tr1::m(d, a) }\n");
    s.push_str("struct Hd { h: int32 }\nimpl Hd {\n    fn hd_dot[T: Main::Tr1](self: Hd, t: T, a: int32) -> int32 { t.m(a) }\n    fn hd_path[T: Main::Tr1](self: Hd, t: T, a: int32) -> int32 { Tr1::m(t, a) }\n    fn hd_plain[T: Tr1](self: Hd, t: T, a: int32) -> int32 { Main::Tr1::m(t, a) }\n}\n");
    s.push_str("fn main() -> unit {\n    let hd: Hd = Hd { h: 0 };\n");
    s.push_str(&main);
    s.push_str("    ()\n}\n");
    Built { src: s.replace("Tr2", "Tr1x"), expected, cells }
}

struct Negative {
    name: &'static str,
    src: &'static str,
    /// some diagnostic must contain one of these
    expect_any: &'static [&'static str],
}

const NEG_PRELUDE: &str = "trait Tr1 {\n    fn m(Self, int32) -> int32;\n}\ntrait Tr2 {\n    fn m(Self, int32) -> int32;\n}\nstruct St { v: int32 }\nstruct Other { v: int32 }\nimpl Tr1 for St {\n    fn m(self: St, a: int32) -> int32 { a + self.v }\n}\nimpl Tr2 for St {\n    fn m(self: St, a: int32) -> int32 { a + self.v + 1 }\n}\nfn via_param(d: dyn Tr1, a: int32) -> int32 { Tr1::m(d, a) }\nfn ret_dyn(s: St) -> dyn Tr1 { let d: dyn Tr1 = s; d }\nstruct Gb[T] { v: T }\nimpl Tr1 for Gb[int32] {\n    fn m(self: Gb[int32], a: int32) -> int32 { a + self.v }\n}\nenum Ge[T] { Ga(T), Gn }\nimpl Tr1 for Ge[int32] {\n    fn m(self: Ge[int32], a: int32) -> int32 { a }\n}\n";

const NEGATIVES: &[Negative] = &[
    Negative { name: "dyn-let-without-impl", src: "fn main() -> unit {\n    let o = Other { v: 1 };\n    let d: dyn Tr1 = o;\n    let _ = string_println(int32_to_string(Tr1::m(d, 1)));\n    ()\n}\n", expect_any: &["does not implement"] },
    Negative { name: "dyn-let-literal-without-impl", src: "fn main() -> unit {\n    let d: dyn Tr1 = Other { v: 1 };\n    let _ = string_println(int32_to_string(Tr1::m(d, 1)));\n    ()\n}\n", expect_any: &["does not implement"] },
    Negative { name: "dyn-param-without-impl", src: "fn main() -> unit {\n    let o = Other { v: 1 };\n    let _ = string_println(int32_to_string(via_param(o, 1)));\n    ()\n}\n", expect_any: &["does not implement"] },
    Negative { name: "dyn-param-primitive-without-impl", src: "fn main() -> unit {\n    let _ = string_println(int32_to_string(via_param(5, 1)));\n    ()\n}\n", expect_any: &["does not implement"] },
    Negative { name: "dyn-return-without-impl", src: "fn bad(o: Other) -> dyn Tr1 { o }\nfn main() -> unit {\n    let _ = string_println(int32_to_string(Tr1::m(bad(Other { v: 1 }), 1)));\n    ()\n}\n", expect_any: &["does not implement", "not equal", "No instance"] },
    // the trait is implemented for ONE instance of a generic type; a value of another instance (its arguments written
    // out, or only inferred from the literal) must not be coerced (added after a seeded change that matched an
    // unresolved type argument against any impl instance)
    Negative { name: "dyn-let-generic-other-instance-inferred", src: "fn main() -> unit {\n    let b = Gb { v: \"hello\" };\n    let d: dyn Tr1 = b;\n    let _ = string_println(int32_to_string(Tr1::m(d, 1)));\n    ()\n}\n", expect_any: &["does not implement", "Cannot convert", "No instance"] },
    Negative { name: "dyn-let-generic-other-instance-annotated", src: "fn main() -> unit {\n    let b: Gb[string] = Gb { v: \"hello\" };\n    let d: dyn Tr1 = b;\n    let _ = string_println(int32_to_string(Tr1::m(d, 1)));\n    ()\n}\n", expect_any: &["does not implement", "Cannot convert", "No instance"] },
    Negative { name: "dyn-param-generic-other-instance-inferred", src: "fn main() -> unit {\n    let b = Gb { v: true };\n    let _ = string_println(int32_to_string(via_param(b, 1)));\n    ()\n}\n", expect_any: &["does not implement", "Cannot convert", "No instance"] },
    Negative { name: "dyn-param-generic-literal-other-instance", src: "fn main() -> unit {\n    let _ = string_println(int32_to_string(via_param(Gb { v: \"s\" }, 1)));\n    ()\n}\n", expect_any: &["does not implement", "Cannot convert", "No instance"] },
    Negative { name: "dyn-let-generic-enum-other-instance-inferred", src: "fn main() -> unit {\n    let e = Ge::Ga(true);\n    let d: dyn Tr1 = e;\n    let _ = string_println(int32_to_string(Tr1::m(d, 1)));\n    ()\n}\n", expect_any: &["does not implement", "Cannot convert", "No instance"] },
    Negative { name: "dyn-let-generic-enum-instance-fixed-later", src: "fn keep(x: Ge[string]) -> int32 { 0 }\nfn main() -> unit {\n    let e = Ge::Gn;\n    let d: dyn Tr1 = e;\n    let _ = string_println(int32_to_string(Tr1::m(d, 1) + keep(e)));\n    ()\n}\n", expect_any: &["does not implement", "Cannot convert", "No instance"] },
    Negative { name: "other-trait-on-dyn", src: "fn main() -> unit {\n    let s = St { v: 1 };\n    let d: dyn Tr1 = s;\n    let _ = string_println(int32_to_string(Tr2::m(d, 1)));\n    ()\n}\n", expect_any: &["No instance"] },
    Negative { name: "concrete-call-without-impl", src: "fn main() -> unit {\n    let o = Other { v: 1 };\n    let _ = string_println(int32_to_string(Tr1::m(o, 1)));\n    ()\n}\n", expect_any: &["No instance"] },
    Negative { name: "generic-call-without-impl", src: "fn g[T: Tr1](t: T) -> int32 { t.m(1) }\nfn main() -> unit {\n    let o = Other { v: 1 };\n    let _ = string_println(int32_to_string(g(o)));\n    ()\n}\n", expect_any: &["No instance", "does not implement", "not satisfied", "bound"] },
    Negative { name: "ambiguous-method-through-two-bounds", src: "fn g[T: Tr1 + Tr2](t: T) -> int32 { t.m(1) }\nfn main() -> unit {\n    let s = St { v: 1 };\n    let _ = string_println(int32_to_string(g(s)));\n    ()\n}\n", expect_any: &["mbiguous", "multiple"] },
    Negative { name: "unknown-method-through-bound", src: "fn g[T: Tr1](t: T) -> int32 { t.zz(1) }\nfn main() -> unit {\n    let s = St { v: 1 };\n    let _ = string_println(int32_to_string(g(s)));\n    ()\n}\n", expect_any: &["not found", "Unknown", "no method"] },
    Negative { name: "unknown-trait-method", src: "fn main() -> unit {\n    let s = St { v: 1 };\n    let _ = string_println(int32_to_string(Tr1::zz(s, 1)));\n    ()\n}\n", expect_any: &["not found", "Unknown", "no method", "Unresolved"] },
];

/// a generic type with a generic inherent impl block and an instance-specific one:
/// (source, [(cell, expression, expected)]). The last cell (path form of a method both blocks define)
/// is where the unchanged compiler is known to disagree with the dot form.
pub fn inherent_overlap_program() -> (String, Vec<(&'static str, &'static str, i64)>) {
    let cells: Vec<(&'static str, &'static str, i64)> = vec![
        ("dot-call-of-generic-block-method-on-instance-with-own-block", "bi.peek()", 1),
        ("path-call-of-generic-block-method-on-instance-with-own-block", "Bxg::peek(bi)", 1),
        ("dot-call-of-instance-block-method", "bi.dbl()", 8),
        ("dot-call-of-generic-block-method-on-other-instance", "bs.peek()", 1),
        ("path-call-of-generic-block-method-on-other-instance", "Bxg::peek(bs)", 1),
        ("generic-method-with-argument-on-instance-with-own-block", "bi.plus(5)", 15),
        ("dot-call-of-method-in-both-blocks-runs-instance-block", "bi.tag()", 200),
        ("dot-call-of-method-in-both-blocks-on-other-instance-runs-generic-block", "bs.tag()", 100),
        ("path-call-of-method-in-both-blocks-runs-instance-block", "Bxg::tag(bi)", 200),
    ];
    let mut src = String::from(
        "struct Bxg[T] { it: T }\nimpl[T] Bxg[T] {\n    fn peek(self: Bxg[T]) -> int32 { 1 }\n    fn plus(self: Bxg[T], k: int32) -> int32 { k + 10 }\n    fn tag(self: Bxg[T]) -> int32 { 100 }\n}\nimpl Bxg[int32] {\n    fn dbl(self: Bxg[int32]) -> int32 { self.it * 2 }\n    fn tag(self: Bxg[int32]) -> int32 { 200 }\n}\nfn main() -> unit {\n    let bi: Bxg[int32] = Bxg { it: 4 };\n    let bs: Bxg[string] = Bxg { it: \"x\" };\n",
    );
    for (_, e, _) in &cells {
        src.push_str(&format!("    let _ = string_println(int32_to_string({}));\n", e));
    }
    src.push_str("    ()\n}\n");
    (src, cells)
}

/// runs the overlap program; cells listed in `skip` are not judged (C01 leaves the known path-form cell out)
pub fn check_inherent_overlap(c: &mut Case, prop: &str, skip_known_path_cell: bool) {
    let (src, cells) = inherent_overlap_program();
    if let Some((out, term, stderr)) = exec::run_source(c, prop, "inherent-overlap", &src, 1_000_000) {
        let got: Vec<&str> = out.lines().collect();
        for (i, (cell, expr, want)) in cells.iter().enumerate() {
            if skip_known_path_cell && cell.starts_with("path-call-of-method-in-both-blocks") {
                continue;
            }
            match got.get(i) {
                Some(g) if *g == want.to_string() => {
                    c.count("calls_checked", 1);
                    c.count("inherent_overlap_cells_ok", 1);
                    c.nontrivial(hash_str(cell));
                }
                other => c.violation(
                    format!("{}:inherent-overlap:{}", prop, cell),
                    format!("`{}` prints {:?}, expected {} ({:?} {})", expr, other, want, term, util::truncate(&stderr, 80)),
                    json!({"cell": cell, "expression": expr, "expected": want, "got": other, "source": src}),
                ),
            }
        }
    }
}

/// well-typed programs that use a dyn value whose type the typer learns late; each has its own signature
const LATE_TYPED_PROBES: &[(&str, &str, &str)] = &[
    ("dyn-element-of-vec", "    let s = St { v: 1 };\n    let d: dyn Tr1 = s;\n    let vs: Vec[dyn Tr1] = vec_push(vec_new(), d);\n    let e = vec_get(vs, 0);\n    let _ = string_println(int32_to_string(Tr1::m(e, 1)));\n", "2"),
    ("dyn-element-of-vec-annotated", "    let s = St { v: 1 };\n    let d: dyn Tr1 = s;\n    let vs: Vec[dyn Tr1] = vec_push(vec_new(), d);\n    let e: dyn Tr1 = vec_get(vs, 0);\n    let _ = string_println(int32_to_string(Tr1::m(e, 1)));\n", "2"),
    ("dyn-content-of-ref", "    let s = St { v: 1 };\n    let d: dyn Tr1 = s;\n    let r = ref(d);\n    let e = ref_get(r);\n    let _ = string_println(int32_to_string(Tr1::m(e, 1)));\n", "2"),
    ("dyn-call-result-as-receiver", "    let _ = string_println(int32_to_string(Tr1::m(ret_dyn(St { v: 1 }), 1)));\n", "2"),
    ("dyn-from-field-projection", "    let h = Holder { f: St { v: 1 } };\n    let d: dyn Tr1 = h.f;\n    let _ = string_println(int32_to_string(Tr1::m(d, 1)));\n", "2"),
    ("dyn-from-call-result", "    let d: dyn Tr1 = mk_st();\n    let _ = string_println(int32_to_string(Tr1::m(d, 1)));\n", "2"),
    ("dyn-from-tuple-component", "    let t = (St { v: 1 }, 5);\n    let d: dyn Tr1 = t.0;\n    let _ = string_println(int32_to_string(Tr1::m(d, 1)));\n", "2"),
    ("inherent-dot-on-field-projection", "    let h = Holder { f: St { v: 1 } };\n    let _ = string_println(int32_to_string(h.f.im2(1)));\n", "2"),
    ("inherent-dot-on-call-result", "    let _ = string_println(int32_to_string(mk_st().im2(1)));\n", "2"),
    ("dyn-in-tuple-destructured", "    let s = St { v: 1 };\n    let d: dyn Tr1 = s;\n    let (e, k) = (d, 1);\n    let _ = string_println(int32_to_string(Tr1::m(e, k)));\n", "2"),
];

fn run_probe(c: &mut Case, name: &str, body: &str, expect: &str) {
    let src = format!("{}struct Holder {{ f: St }}\nfn mk_st() -> St {{ St {{ v: 1 }} }}\nimpl St {{\n    fn im2(self: St, a: int32) -> int32 {{ a + self.v }}\n}}\nfn main() -> unit {{\n{}    ()\n}}\n", NEG_PRELUDE, body);
    runner::note_input(&src);
    match runner::guard(|| capi::compile_single(&src).map(|comp| capi::go_text(&comp))) {
        Ok(Ok(go)) => {
            let gp = crate::goexec::parse(&go);
            if !matches!(crate::goexec::vet(&gp), crate::goexec::Vet::Accept) {
                c.violation(format!("C17:late-typed-dyn:invalid-go:{}", name), format!("{}: accepted, but the Go text is invalid", name), json!({"probe": name, "source": src}));
                return;
            }
            let r = crate::goexec::run(&gp, 1_000_000, gomini::Sched::Deterministic);
            if r.stdout.trim() == expect && matches!(r.term, Term::Ok) {
                c.count("late_typed_dyn_probes_ok", 1);
                c.count("calls_checked", 1);
            } else {
                c.violation(format!("C17:late-typed-dyn:wrong-result:{}", name), format!("{}: prints {:?}, expected {}", name, r.stdout, expect), json!({"probe": name, "source": src, "stderr": r.stderr}));
            }
        }
        Ok(Err(e)) => {
            // refused with a diagnostic: the typer only resolves these receivers later. The property speaks about
            // the forms that are accepted, so this is recorded as an observation (evidence counters), not as a violation;
            // an internal error is one.
            let msgs = capi::err_messages(&e);
            if msgs.iter().any(|m| m.contains("Internal error")) {
                c.violation(format!("C17:late-typed-dyn:internal-error:{}", name), format!("{}: rejected by an internal error: {}", name, util::truncate(&msgs.join("; "), 160)), json!({"probe": name, "source": src, "messages": msgs}));
            } else {
                c.count(&format!("late_typed_receiver_refused:{}", name), 1);
            }
        }
        Err(p) => c.violation(format!("C17:late-typed-dyn:crash:{}", name), format!("{} crashes the compiler at {}", name, p.site), json!({"probe": name, "source": src})),
    }
}

fn run_negative(c: &mut Case, n: &Negative, decoy: &str) {
    let src = format!("{}{}{}", NEG_PRELUDE, decoy, n.src);
    runner::note_input(&src);
    match runner::guard(|| capi::compile_single(&src).map(|comp| capi::go_text(&comp))) {
        Ok(Ok(_go)) => c.violation(format!("C17:accepted:{}", n.name), format!("a program that must be rejected ({}) is accepted", n.name), json!({"negative": n.name, "source": src})),
        Ok(Err(e)) => {
            let msgs = capi::err_messages(&e);
            let internal = msgs.iter().any(|m| m.contains("Internal error") || m.contains("ICE"));
            if internal {
                c.violation(format!("C17:internal-error:{}", n.name), format!("{} is rejected by an internal error: {}", n.name, util::truncate(&msgs.join("; "), 200)), json!({"negative": n.name, "source": src, "messages": msgs}));
            } else if msgs.iter().any(|m| n.expect_any.iter().any(|w| m.contains(w))) {
                c.count("negatives_rejected", 1);
                c.count(&format!("negatives_rejected:{}", n.name), 1);
            } else {
                // rejected, but with a diagnostic of another kind: recorded, not a violation of the property
                c.count("negatives_rejected", 1);
                c.count(&format!("negatives_rejected_other_diagnostic:{}", n.name), 1);
            }
        }
        Err(p) => c.violation(format!("C17:crash:{}", n.name), format!("{} crashes the compiler at {}", n.name, p.site), json!({"negative": n.name, "source": src})),
    }
}

/// receiver types that live in an imported package `Lib` (traits, impls and inherent methods too); Main reaches
/// them through every call form: (files, expected lines, cells)
struct ForeignTy {
    name: &'static str,
    ty: &'static str,
    /// (literal as written in Main, digest)
    literals: &'static [(&'static str, i64)],
    digest: &'static str,
    /// path of the type's head for `Head::im(x, a)`
    head: &'static str,
}
const FOREIGN: &[ForeignTy] = &[
    ForeignTy { name: "St", ty: "Lib::St", literals: &[("Lib::St { v: 3 }", 3), ("Lib::St { v: 88 }", 88)], digest: "self.v", head: "Lib::St" },
    ForeignTy { name: "En", ty: "Lib::En", literals: &[("Lib::En::A(6)", 6), ("Lib::En::B", 0), ("Lib::En::C(2, true)", 3)], digest: "(match self { En::A(k) => k, En::B => 0, En::C(k, b) => if b { k + 1 } else { k } })", head: "Lib::En" },
    ForeignTy { name: "OptI", ty: "Lib::Opt[int32]", literals: &[("Lib::Opt::Som(9)", 9), ("Lib::Opt::Non", 0)], digest: "(match self { Opt::Som(k) => k, Opt::Non => 0 })", head: "Lib::Opt" },
    ForeignTy { name: "GnI", ty: "Lib::Gn[int32]", literals: &[("Lib::Gn { it: 9 }", 9)], digest: "self.it", head: "Lib::Gn" },
    ForeignTy { name: "Nest", ty: "Lib::Nest", literals: &[("Lib::Nest { inner: Lib::St { v: 2 }, tag: 30 }", 32)], digest: "self.inner.v + self.tag", head: "Lib::Nest" },
];

fn build_foreign_project(rng: &mut Rng) -> (Vec<(std::path::PathBuf, String)>, Vec<String>, Vec<String>) {
    let mut lib = String::from("package Lib\n\ntrait Tr1 {\n    fn zm(Self, int32) -> int32;\n    fn m(Self, int32) -> int32;\n    fn n(Self) -> string;\n}\n\nstruct St { v: int32 }\nenum En { A(int32), B, C(int32, bool) }\nenum Opt[T] { Som(T), Non }\nstruct Gn[T] { it: T }\nstruct Nest { inner: St, tag: int32 }\n\nstruct Tag { t: int32 }\n\nimpl Tag {\n    fn render_dot[T: Tr1](self: Tag, x: T, a: int32) -> int32 { x.m(a) }\n    fn render_path[T: Tr1](self: Tag, x: T, a: int32) -> int32 { Tr1::m(x, a) }\n}\n\nfn tag() -> Tag { Tag { t: 0 } }\n\n");
    let mut main = String::from("package Main\nimport Lib\n\nfn g_dot[T: Lib::Tr1](t: T, a: int32) -> int32 { t.m(a) }\nfn g_ufcs[T: Lib::Tr1](t: T, a: int32) -> int32 { Lib::Tr1::m(t, a) }\nfn via_param(d: dyn Lib::Tr1, a: int32) -> int32 { Lib::Tr1::m(d, a) }\n\nstruct Loc { l: int32 }\n\nimpl Loc {\n    fn loc_dot[T: Lib::Tr1](self: Loc, x: T, a: int32) -> int32 { x.m(a) }\n    fn loc_path[T: Lib::Tr1](self: Loc, x: T, a: int32) -> int32 { Lib::Tr1::m(x, a) }\n}\n\nfn main() -> unit {\n    let tg: Lib::Tag = Lib::tag();\n    let lc: Loc = Loc { l: 0 };\n");
    let mut expected = Vec::new();
    let mut cells = Vec::new();
    for (k, t) in FOREIGN.iter().enumerate() {
        let code = (k as i64 + 1) * 1000;
        let local_ty = t.ty.replace("Lib::", "");
        // generic types: the inherent block is generic, the trait impl is for the int32 instance
        let (impl_head, self_ty) = match t.name {
            "OptI" => ("impl[T] Opt[T]".to_string(), "Opt[T]".to_string()),
            "GnI" => ("impl[T] Gn[T]".to_string(), "Gn[T]".to_string()),
            _ => (format!("impl {}", local_ty), local_ty.clone()),
        };
        let inh_digest = match t.name {
            "OptI" => "(match self { Opt::Som(_) => 1, Opt::Non => 0 })",
            "GnI" => "7",
            _ => t.digest,
        };
        lib.push_str(&format!("impl Tr1 for {ty} {{\n    fn zm(self: {ty}, a: int32) -> int32 {{ 0 - 777 }}\n    fn m(self: {ty}, a: int32) -> int32 {{ {code} + a + {dg} }}\n    fn n(self: {ty}) -> string {{ \"{nm}\" }}\n}}\n", ty = local_ty, code = code, dg = t.digest, nm = t.name));
        lib.push_str(&format!("{head} {{\n    fn im(self: {st}, a: int32) -> int32 {{ {c} + a + {dg} }}\n}}\n", head = impl_head, st = self_ty, c = code + 100_000, dg = inh_digest));
        let (lit, dg) = *rng.pick_ref(t.literals);
        let inh_dg: i64 = match t.name {
            "OptI" => if lit.contains("Som") { 1 } else { 0 },
            "GnI" => 7,
            _ => dg,
        };
        lib.push_str(&format!("fn make{k}() -> {ty} {{ {lit} }}\n\n", k = k, ty = local_ty, lit = lit.replace("Lib::", "")));
        let mut a = 0i64;
        for rf in ["variable", "annotated-call", "parameter"] {
            let recv = format!("r{}{}", k, &rf[..1]);
            match rf {
                "variable" => main.push_str(&format!("    let {}: {} = {};\n", recv, t.ty, lit)),
                "annotated-call" => main.push_str(&format!("    let {}: {} = Lib::make{}();\n", recv, t.ty, k)),
                _ => {}
            }
            let mut line = |main: &mut String, call: String, val: i64, form: &str| {
                main.push_str(&format!("    let _ = string_println(int32_to_string({}));\n", call));
                expected.push(val.to_string());
                cells.push(format!("foreign-{}|{}|{}", t.name, rf, form));
            };
            if rf == "parameter" {
                // the receiver is a parameter of a Main function whose type is the imported type
                a += 1;
                line(&mut main, format!("on_param{}({}, {})", k, lit, a), 2 * (code + a + dg) + (code + 100_000 + a + inh_dg) * 2, "all-forms-on-parameter");
                continue;
            }
            a += 1;
            line(&mut main, format!("Lib::Tr1::m({}, {})", recv, a), code + a + dg, "concrete-ufcs");
            a += 1;
            line(&mut main, format!("g_dot({}, {})", recv, a), code + a + dg, "generic-dot");
            a += 1;
            line(&mut main, format!("g_ufcs({}, {})", recv, a), code + a + dg, "generic-ufcs");
            a += 1;
            line(&mut main, format!("via_param({}, {})", recv, a), code + a + dg, "dyn-param");
            // bounded generic METHODS of an impl block (in the trait's package with the bound spelled unqualified, and
            // in Main with the qualified bound), dot and path form inside
            a += 1;
            line(&mut main, format!("tg.render_dot({}, {})", recv, a), code + a + dg, "impl-method-bound-dot");
            a += 1;
            line(&mut main, format!("Lib::Tag::render_path(tg, {}, {})", recv, a), code + a + dg, "impl-method-bound-path");
            a += 1;
            line(&mut main, format!("lc.loc_dot({}, {}) + Loc::loc_path(lc, {}, 0)", recv, a, recv), 2 * (code + dg) + a, "impl-method-bound-in-main");
            a += 1;
            line(&mut main, format!("{}.im({})", recv, a), code + 100_000 + a + inh_dg, "inherent-dot");
            a += 1;
            line(&mut main, format!("{}::im({}, {})", t.head, recv, a), code + 100_000 + a + inh_dg, "inherent-ufcs");
        }
    }
    main.push_str("    ()\n}\n");
    for (k, t) in FOREIGN.iter().enumerate() {
        main.push_str(&format!("fn on_param{k}(p: {ty}, a: int32) -> int32 {{\n    let d: dyn Lib::Tr1 = p;\n    Lib::Tr1::m(p, a) + Lib::Tr1::m(d, a) + p.im(a) + {head}::im(p, a)\n}}\n", k = k, ty = t.ty, head = t.head));
    }
    (vec![(std::path::PathBuf::from("Lib/lib.gom"), lib), (std::path::PathBuf::from("main.gom"), main)], expected, cells)
}

/// Projects in which a type parameter is bounded by two traits of the SAME name from different packages (or Main's own
/// trait and an imported one), both declaring the method: the dot call is ambiguous and must be rejected, while the
/// path forms name their trait and must run that trait's implementation (added after a seeded change that
/// de-duplicated candidate traits by their unqualified name).
fn check_same_named_traits(c: &mut Case, label: &str, variant: usize, scratch: &std::path::Path) {
    use std::path::PathBuf;
    let lib = |pkg: &str, tag: &str| -> (PathBuf, String) {
        (
            PathBuf::from(pkg).join("lib.gom"),
            format!("package {}\n\ntrait Show {{\n    fn show(Self) -> string;\n}}\n\nimpl Show for int32 {{\n    fn show(self: int32) -> string {{ \"{}:\" + int32_to_string(self) }}\n}}\n", pkg, tag),
        )
    };
    // (files, ambiguous?, expected stdout when not ambiguous)
    let (files, must_reject, expected): (Vec<(PathBuf, String)>, bool, &str) = match variant {
        0 => (
            vec![lib("Alpha", "alpha"), lib("Beta", "beta"), (PathBuf::from("main.gom"), "package Main\nimport Alpha\nimport Beta\n\nfn describe[T: Beta::Show + Alpha::Show](x: T) -> string { x.show() }\n\nfn main() -> unit {\n    let _ = string_println(describe(7));\n    ()\n}\n".to_string())],
            true,
            "",
        ),
        1 => (
            vec![lib("Alpha", "alpha"), lib("Beta", "beta"), (PathBuf::from("main.gom"), "package Main\nimport Alpha\nimport Beta\n\nfn describe[T: Alpha::Show + Beta::Show](x: T) -> string { x.show() }\n\nfn main() -> unit {\n    let _ = string_println(describe(7));\n    ()\n}\n".to_string())],
            true,
            "",
        ),
        2 => (
            vec![lib("Lib", "lib"), (PathBuf::from("main.gom"), "package Main\nimport Lib\n\ntrait Show {\n    fn show(Self) -> string;\n}\n\nimpl Show for int32 {\n    fn show(self: int32) -> string { \"main:\" + int32_to_string(self) }\n}\n\nfn describe[T: Show + Lib::Show](x: T) -> string { x.show() }\n\nfn main() -> unit {\n    let _ = string_println(describe(7));\n    ()\n}\n".to_string())],
            true,
            "",
        ),
        // controls: the same bounds, every call names its trait
        3 => (
            vec![lib("Alpha", "alpha"), lib("Beta", "beta"), (PathBuf::from("main.gom"), "package Main\nimport Alpha\nimport Beta\n\nfn describe[T: Beta::Show + Alpha::Show](x: T) -> string { Beta::Show::show(x) + \"/\" + Alpha::Show::show(x) }\n\nfn main() -> unit {\n    let _ = string_println(describe(7));\n    ()\n}\n".to_string())],
            false,
            "beta:7/alpha:7\n",
        ),
        _ => (
            vec![lib("Lib", "lib"), (PathBuf::from("main.gom"), "package Main\nimport Lib\n\ntrait Show {\n    fn show(Self) -> string;\n}\n\nimpl Show for int32 {\n    fn show(self: int32) -> string { \"main:\" + int32_to_string(self) }\n}\n\nfn describe[T: Show + Lib::Show](x: T) -> string { Show::show(x) + \"/\" + Lib::Show::show(x) }\n\nfn main() -> unit {\n    let _ = string_println(describe(7));\n    ()\n}\n".to_string())],
            false,
            "main:7/lib:7\n",
        ),
    };
    let root = scratch.join(format!("c17s-{}-{}", std::process::id(), util::hex64(hash_str(label))));
    let _ = std::fs::remove_dir_all(&root);
    let order: Vec<usize> = (0..files.len()).collect();
    if crate::projgen::materialize(&root, &files, &order).is_err() {
        c.inconclusive("cannot materialise project");
        return;
    }
    let srcs: String = files.iter().map(|(p, t)| format!("// ---- {}\n{}\n", p.display(), t)).collect();
    runner::note_input(&srcs);
    let whole = runner::guard(|| crate::projdrv::observe_whole(&root));
    let _ = std::fs::remove_dir_all(&root);
    let whole = match whole {
        Ok(o) => o,
        Err(p) => {
            c.violation("C17:crash:same-named-traits".to_string(), format!("a project with same-named traits crashes the compiler at {}", p.site), json!({"label": label, "sources": srcs}));
            return;
        }
    };
    let accepted = whole.get("whole/result").map_or(false, |r| r == "ok");
    if must_reject {
        if accepted {
            c.violation(format!("C17:accepted:dot-call-through-two-same-named-traits:{}", variant), "a dot call through two bounds that are same-named traits of different packages, both declaring the method, is accepted (it picks one silently)".to_string(), json!({"label": label, "sources": srcs}));
        } else {
            c.count("negatives_rejected", 1);
            c.count("negatives_rejected:same-named-traits", 1);
        }
        return;
    }
    if !accepted {
        let d = whole.get("whole/diagnostics").cloned().unwrap_or_default();
        // the unchanged compiler may not support trait paths of this form: observed, not required
        c.count("same_named_trait_controls_rejected", 1);
        crate::diff::stash("C17", &format!("same-named-control-rejected:{}", crate::diff::msg_class(d.lines().nth(1).unwrap_or(""))), label, &srcs);
        return;
    }
    let Some(go) = whole.get("whole/dump/go") else { return };
    let gp = crate::goexec::parse(go);
    if let crate::goexec::Vet::Accept = crate::goexec::vet(&gp) {
        let r = crate::goexec::run(&gp, 1_000_000, gomini::Sched::Deterministic);
        if matches!(r.term, Term::Ok) {
            if r.stdout == expected {
                c.count("same_named_trait_controls_agree", 1);
            } else {
                c.violation(format!("C17:same-named-traits:path-form-runs-other-trait:{}", variant), format!("path forms through same-named traits print {:?}, expected {:?}", r.stdout, expected), json!({"label": label, "sources": srcs}));
            }
        }
    }
}

fn check_foreign_project(c: &mut Case, label: &str, rng: &mut Rng, scratch: &std::path::Path) {
    let (files, expected, cells) = build_foreign_project(rng);
    let root = scratch.join(format!("c17f-{}-{}", std::process::id(), util::hex64(hash_str(label))));
    let _ = std::fs::remove_dir_all(&root);
    let order: Vec<usize> = (0..files.len()).collect();
    if crate::projgen::materialize(&root, &files, &order).is_err() {
        c.inconclusive("cannot materialise project");
        return;
    }
    let srcs: String = files.iter().map(|(p, t)| format!("// ---- {}\n{}\n", p.display(), t)).collect();
    runner::note_input(&srcs);
    let whole = runner::guard(|| crate::projdrv::observe_whole(&root));
    let _ = std::fs::remove_dir_all(&root);
    let whole = match whole {
        Ok(o) => o,
        Err(p) => {
            c.violation("C17:compiler-crash-on-valid-program:foreign-receivers".to_string(), format!("the two-package call-form project crashes the compiler at {}", p.site), json!({"label": label, "sources": srcs}));
            return;
        }
    };
    if whole.get("whole/result").map_or(true, |r| r != "ok") {
        let d = whole.get("whole/diagnostics").cloned().unwrap_or_default();
        c.violation(
            format!("C17:program-rejected:foreign-receivers:{}", crate::diff::msg_class(d.lines().nth(1).unwrap_or(""))),
            format!("a call form on a receiver whose type comes from an imported package is rejected: {}", util::truncate(&d, 300)),
            json!({"label": label, "diagnostics": d, "sources": srcs}),
        );
        return;
    }
    let Some(go) = whole.get("whole/dump/go") else { return };
    let gp = crate::goexec::parse(go);
    match crate::goexec::vet(&gp) {
        crate::goexec::Vet::Accept => {}
        crate::goexec::Vet::Unsupported(u) => {
            c.inconclusive(format!("gomini vet unsupported: {}", u));
            return;
        }
        crate::goexec::Vet::Reject(errs) => {
            c.violation(format!("C17:invalid-go:{}", errs[0].0), format!("the two-package call-form project yields invalid Go: {}", util::truncate(&errs[0].2, 160)), json!({"label": label, "sources": srcs}));
            return;
        }
    }
    let r = crate::goexec::run(&gp, 20_000_000, gomini::Sched::Deterministic);
    if !matches!(r.term, Term::Ok) {
        if matches!(r.term, Term::Unsupported(_) | Term::Budget) {
            c.inconclusive(format!("gomini: {:?}", r.term));
            return;
        }
    }
    let got: Vec<&str> = r.stdout.lines().collect();
    for (i, e) in expected.iter().enumerate() {
        match got.get(i) {
            Some(g) if g == e => {
                c.count("calls_checked", 1);
                c.count("foreign_receiver_calls_checked", 1);
                c.nontrivial(hash_str(&cells[i]));
            }
            other => {
                let parts: Vec<&str> = cells[i].split('|').collect();
                c.violation(
                    format!("C17:wrong-implementation:{}:{}:{}", parts.get(2).unwrap_or(&""), parts.get(0).unwrap_or(&""), if other.is_none() { "fails" } else { "other-result" }),
                    format!("call cell {} prints {:?}, expected {}", cells[i], other, e),
                    json!({"label": label, "cell": cells[i], "expected": e, "got": other, "stderr": util::truncate(&r.stderr, 300), "sources": srcs}),
                );
                return;
            }
        }
    }
    c.count("foreign_projects_agree", 1);
}

fn run(ctx: &mut Ctx) {
    let tier = ctx.tier;
    let seed = ctx.seed;
    if ctx.replay_input.is_some() {
        println!("replay: the replay file stores the full source and both outputs");
        return;
    }
    let n = tier.pickn(64u64, 2_400u64) / ctx.nshards as u64 + 1;
    for j in 0..n {
        let mut rng = Rng::keyed(seed, "c17", ctx.shard as u64, j);
        // 3 receiver types per program; the first programs walk through all types
        let mut idx: Vec<usize> = Vec::new();
        let base = (ctx.shard as u64 * n + j) as usize;
        idx.push(base % TYPES.len());
        while idx.len() < 3 {
            let k = rng.below(TYPES.len());
            if !idx.contains(&k) {
                idx.push(k);
            }
        }
        let b = build_program(&mut rng, &idx);
        let label = format!("calls/{}/{}", ctx.shard, j);
        ctx.case(&label.clone(), |c| {
            if let Some((out, term, stderr)) = exec::run_source(c, "C17", &label, &b.src, 20_000_000) {
                let got: Vec<&str> = out.lines().collect();
                // compare line by line: every line is one call cell
                let mut ok = true;
                for (i, e) in b.expected.iter().enumerate() {
                    match got.get(i) {
                        Some(g) if g == e => {
                            c.count("calls_checked", 1);
                            c.nontrivial(hash_str(&b.cells[i]));
                        }
                        other => {
                            ok = false;
                            let parts: Vec<&str> = b.cells[i].split('|').collect();
                            c.violation(
                                format!("C17:wrong-implementation:{}:{}:{}", parts.get(2).unwrap_or(&""), parts.get(1).unwrap_or(&""), if matches!(term, Term::Fail(_)) && other.is_none() { "fails" } else { "other-result" }),
                                format!("call cell {} prints {:?}, expected {} ({})", b.cells[i], other, e, util::truncate(&stderr, 120)),
                                json!({"label": label, "cell": b.cells[i], "expected": e, "got": other, "stderr": util::truncate(&stderr, 300), "source": b.src}),
                            );
                            break;
                        }
                    }
                }
                if ok && got.len() == b.expected.len() && matches!(term, Term::Ok) {
                    c.count("programs_agree", 1);
                }
            }
            if j == 0 {
                c.sample(json!({"workload": "call forms", "types": idx.iter().map(|i| TYPES[*i].name).collect::<Vec<_>>(), "cells_in_program": b.cells.len()}));
            }
        });
    }
    if ctx.shard == 0 {
        ctx.add_stat("distinct_call_cells_possible", (TYPES.len() * RECV_FORMS.len() * FORMS.len()) as u64);
    }
    // negatives, each with varying decoy declarations around it
    let reps = tier.pick(4u64, 60u64);
    for (k, neg) in NEGATIVES.iter().enumerate() {
        for r in 0..reps {
            if !ctx.mine(k as u64 * 1000 + r) {
                continue;
            }
            let mut rng = Rng::keyed(seed, "c17-neg", k as u64, r);
            let decoys = ["", "impl Tr2 for Other {\n    fn m(self: Other, a: int32) -> int32 { a }\n}\n", "struct Third { w: bool }\nimpl Tr1 for Third {\n    fn m(self: Third, a: int32) -> int32 { a }\n}\n", "impl Tr1 for int64 {\n    fn m(self: int64, a: int32) -> int32 { a }\n}\nimpl Tr1 for bool {\n    fn m(self: bool, a: int32) -> int32 { a }\n}\n"];
            let mut decoy = String::new();
            for d in decoys.iter() {
                if rng.bool() {
                    decoy.push_str(d);
                }
            }
            // the decoy `impl Tr2 for Other` must not make a negative legal: none of the negatives uses Tr2 on Other
            let label = format!("negative/{}/{}", neg.name, r);
            ctx.case(&label, |c| {
                run_negative(c, neg, &decoy);
                if r == 0 {
                    c.sample(json!({"workload": format!("negative: {}", neg.name)}));
                }
            });
        }
    }
    // receivers whose type, trait and impls live in an imported package
    {
        let scratch = crate::util::scratch_base();
        let nf = tier.pickn(16u64, 320u64) / ctx.nshards as u64 + 1;
        for j in 0..nf {
            let mut rng = Rng::keyed(seed, "c17-foreign", ctx.shard as u64, j);
            let label = format!("foreign/{}/{}", ctx.shard, j);
            ctx.case(&label.clone(), |c| {
                check_foreign_project(c, &label, &mut rng, &scratch);
                if j == 0 {
                    c.sample(json!({"workload": "call forms on receivers from an imported package", "types": FOREIGN.iter().map(|t| t.ty).collect::<Vec<_>>()}));
                }
            });
        }
    }
    for variant in 0..5usize {
        if ctx.mine(899_900 + variant as u64) {
            let scratch = crate::util::scratch_base();
            let label = format!("same-named-traits/{}", variant);
            ctx.case(&label.clone(), |c| check_same_named_traits(c, &label, variant, &scratch));
        }
    }
    if ctx.mine(899_999) {
        ctx.case("inherent-overlap", |c| {
            check_inherent_overlap(c, "C17", false);
            c.sample(json!({"workload": "generic and instance-specific inherent impl blocks of one type"}));
        });
    }
    for (k, (name, body, expect)) in LATE_TYPED_PROBES.iter().enumerate() {
        if !ctx.mine(900_000 + k as u64) {
            continue;
        }
        let label = format!("late-typed-dyn/{}", name);
        ctx.case(&label, |c| run_probe(c, name, body, expect));
    }
    crate::capi::cleanup_scratch();
}
