//! C16: packages are isolated by imports and trait implementations are coherent.
//! Scenario projects over package-name pools that contain prefix-related names: legal and illegal
//! placements of (trait, type, impl), uses without import in every syntactic position, missing / misnamed
//! packages, import cycles; accepted projects are executed and must print what the scenario means, with
//! and without decoy packages that define equally named items.
use crate::goexec::{self, Term, Vet};
use crate::projdrv;
use crate::projgen;
use crate::runner::{self, Case, Ctx, PropSpec};
use crate::util::{self, Rng, hash_str};
use crate::capi;
use serde_json::json;
use std::path::PathBuf;

pub static SPEC: PropSpec = PropSpec {
    id: "C16",
    level: "exploration",
    rule: "projects: 40 scenario families (incl. a foreign trait / an inherent impl for a foreign generic type applied to a local type, in Main and in a library) instantiated over package names drawn from {Geo, GeoShapes, Lib, LibX, P1, P10, Ab, Abc, Util, MainUtil, Core, Main..} so that implementing / using packages are proper prefixes of owners and vice versa: impl of a trait for a type placed in the type's package, the trait's package (legal), a third package, Main (orphans), twice in one package across files, with one or both headers qualifying the trait by the package's own name (duplicates), inherent impl on a foreign type; a package-qualified use without import in 16 syntactic positions (constructor pattern / struct pattern as the only qualified name, inherent method / static function / trait method reached by a path through the package's type or trait, let annotation, closure-parameter annotation, call, type in signature, struct literal, struct pattern, enum constructor, enum pattern, dyn type, impl header, generic bound) in Main and in the second file of a library whose first file does import; transitive use; import of a missing package; package declaration that differs from the directory; import cycles of length 1-3; equally named types with impls of one trait in two packages; each accepted project also with decoy packages (same item names, own impls) added and imported. expected: accept + exact stdout, or reject without internal error. non-trivial: every scenario instance; distinct by source hash",
    eval_counter: "scenarios",
    assumptions: &["observed through the whole-program entry point (C14 checks that check/build/link agrees with it); behaviour through gomini"],
    crash_is_violation: false,
    stack_mib: 512,
    case_cpu_s: 300,
    shards: 0,
    run,
    floors: &[("scenarios", 300, 6_000), ("accepted_and_correct", 80, 1_500), ("rejected_as_required", 150, 3_000), ("decoy_variants_agree", 40, 800)],
    finish: None,
};

const NAMES: &[&str] = &["Geo", "GeoShapes", "Lib", "LibX", "P1", "P10", "Ab", "Abc", "Util", "MainUtil", "Core", "Co", "Mainly", "Ma"];

#[derive(Clone)]
struct Proj {
    files: Vec<(PathBuf, String)>,
}

impl Proj {
    fn new() -> Proj {
        Proj { files: Vec::new() }
    }
    fn file(&mut self, pkg: &str, name: &str, imports: &[&str], body: &str) {
        let mut s = format!("package {}\n", pkg);
        for i in imports {
            s.push_str(&format!("import {}\n", i));
        }
        s.push('\n');
        s.push_str(body);
        let path = if pkg == "Main" { PathBuf::from(name) } else { PathBuf::from(pkg).join(name) };
        self.files.push((path, s));
    }
    /// file whose package declaration is given explicitly (for mismatch scenarios)
    fn raw(&mut self, dir: &str, name: &str, text: &str) {
        self.files.push((PathBuf::from(dir).join(name), text.to_string()));
    }
}

enum Expect {
    Accept(String),
    Reject,
}

struct Scenario {
    family: &'static str,
    proj: Proj,
    expect: Expect,
}

/// three distinct package names; `prefix_mode` chooses related names
fn names(rng: &mut Rng) -> (String, String, String) {
    // (T = trait owner, D = type owner, P = third package)
    match rng.below(5) {
        // P is a proper prefix of D
        0 => {
            let (p, d) = *rng.pick_ref(&[("Geo", "GeoShapes"), ("Lib", "LibX"), ("P1", "P10"), ("Ab", "Abc"), ("Co", "Core")]);
            let t = *rng.pick_ref(&["Util", "Ma", "Zed"]);
            (t.to_string(), d.to_string(), p.to_string())
        }
        // P is a proper prefix of T
        1 => {
            let (p, t) = *rng.pick_ref(&[("Geo", "GeoShapes"), ("Lib", "LibX"), ("P1", "P10"), ("Ab", "Abc"), ("Co", "Core")]);
            let d = *rng.pick_ref(&["Util", "Ma", "Zed"]);
            (t.to_string(), d.to_string(), p.to_string())
        }
        // owners are prefixes of P
        2 => {
            let (d, p) = *rng.pick_ref(&[("Geo", "GeoShapes"), ("Lib", "LibX"), ("P1", "P10"), ("Ab", "Abc")]);
            (String::from("Util"), d.to_string(), p.to_string())
        }
        // a library whose name starts with Main
        3 => (String::from("MainUtil"), String::from("Mainly"), String::from("Ma")),
        _ => {
            let mut v: Vec<&str> = NAMES.to_vec();
            rng.shuffle(&mut v);
            (v[0].to_string(), v[1].to_string(), v[2].to_string())
        }
    }
}

fn trait_pkg(p: &mut Proj, t: &str, imports: &[&str], extra: &str) {
    p.file(t, "lib.gom", imports, &format!("trait Tr {{\n    fn m(Self) -> int32;\n}}\n\nimpl Tr for int32 {{\n    fn m(self: int32) -> int32 {{ self + 1 }}\n}}\n\nfn f(x: int32) -> int32 {{ x + 10 }}\n\n{}", extra));
}

fn type_pkg(p: &mut Proj, d: &str, imports: &[&str], extra: &str) {
    p.file(d, "lib.gom", imports, &format!("struct S {{ v: int32 }}\n\nenum E {{ A, B(int32) }}\n\nfn mk(v: int32) -> S {{ S {{ v: v }} }}\n\nimpl S {{\n    fn get(self: S) -> int32 {{ self.v }}\n    fn zero() -> int32 {{ 0 }}\n}}\n\nfn f(x: int32) -> int32 {{ x + 20 }}\n\n{}", extra));
}

fn impl_text(t: &str, d: &str, local_trait: bool, local_type: bool, k: i32) -> String {
    let tn = if local_trait { "Tr".to_string() } else { format!("{}::Tr", t) };
    let sn = if local_type { "S".to_string() } else { format!("{}::S", d) };
    format!("impl {} for {} {{\n    fn m(self: {}) -> int32 {{ self.v + {} }}\n}}\n", tn, sn, sn, k)
}

fn main_calling(p: &mut Proj, imports: &[&str], t: &str, d: &str, extra_stmts: &str) {
    p.file("Main", "main.gom", imports, &format!("fn main() {{\n    let _ = string_println(int32_to_string({}::Tr::m({}::mk(5))));\n    let _ = string_println(int32_to_string({}::Tr::m(7)));\n{}    ()\n}}\n", t, d, t, extra_stmts));
}

fn scenarios(rng: &mut Rng) -> Vec<Scenario> {
    let mut out = Vec::new();
    let (t, d, p3) = names(rng);
    let (t, d, p3) = (t.as_str(), d.as_str(), p3.as_str());
    let k = 100 + rng.below(800) as i32;
    let ok_out = format!("{}\n8\n", 5 + k);

    // 1. impl in the type's package
    {
        let mut p = Proj::new();
        trait_pkg(&mut p, t, &[], "");
        type_pkg(&mut p, d, &[t], &impl_text(t, d, false, true, k));
        main_calling(&mut p, &[t, d], t, d, "");
        out.push(Scenario { family: "impl-in-type-package", proj: p, expect: Expect::Accept(ok_out.clone()) });
    }
    // 2. impl in the trait's package
    {
        let mut p = Proj::new();
        trait_pkg(&mut p, t, &[d], &impl_text(t, d, true, false, k));
        type_pkg(&mut p, d, &[], "");
        main_calling(&mut p, &[t, d], t, d, "");
        out.push(Scenario { family: "impl-in-trait-package", proj: p, expect: Expect::Accept(ok_out.clone()) });
    }
    // 3. orphan in a third package
    {
        let mut p = Proj::new();
        trait_pkg(&mut p, t, &[], "");
        type_pkg(&mut p, d, &[], "");
        p.file(p3, "lib.gom", &[t, d], &format!("{}\nfn g(x: int32) -> int32 {{ x }}\n", impl_text(t, d, false, false, k)));
        main_calling(&mut p, &[t, d, p3], t, d, "");
        out.push(Scenario { family: "orphan-impl-in-third-package", proj: p, expect: Expect::Reject });
    }
    // 4. orphan in Main
    {
        let mut p = Proj::new();
        trait_pkg(&mut p, t, &[], "");
        type_pkg(&mut p, d, &[], "");
        let imp = impl_text(t, d, false, false, k);
        p.file("Main", "main.gom", &[t, d], &format!("{}\nfn main() {{\n    let _ = string_println(int32_to_string({}::Tr::m({}::mk(5))));\n    ()\n}}\n", imp, t, d));
        out.push(Scenario { family: "orphan-impl-in-main", proj: p, expect: Expect::Reject });
    }
    // 5. orphan for a primitive type in a third package
    {
        let mut p = Proj::new();
        p.file(t, "lib.gom", &[], "trait Tr {\n    fn m(Self) -> int32;\n}\n\nfn f(x: int32) -> int32 { x + 10 }\n");
        p.file(p3, "lib.gom", &[t], &format!("impl {}::Tr for int32 {{\n    fn m(self: int32) -> int32 {{ self + 1 }}\n}}\n\nfn g(x: int32) -> int32 {{ x }}\n", t));
        p.file("Main", "main.gom", &[t, p3], &format!("fn main() {{\n    let _ = string_println(int32_to_string({}::Tr::m(7)));\n    ()\n}}\n", t));
        out.push(Scenario { family: "orphan-impl-for-primitive", proj: p, expect: Expect::Reject });
    }
    // 6. duplicate impl in one package (two files)
    {
        let mut p = Proj::new();
        trait_pkg(&mut p, t, &[], "");
        type_pkg(&mut p, d, &[t], &impl_text(t, d, false, true, k));
        p.file(d, "zz_more.gom", &[t], &impl_text(t, d, false, true, k + 1));
        main_calling(&mut p, &[t, d], t, d, "");
        out.push(Scenario { family: "duplicate-impl-two-files", proj: p, expect: Expect::Reject });
    }
    // 7. duplicate impl for a primitive in the trait's package
    {
        let mut p = Proj::new();
        trait_pkg(&mut p, t, &[], "impl Tr for int32 {\n    fn m(self: int32) -> int32 { self + 2 }\n}\n");
        type_pkg(&mut p, d, &[], "");
        p.file("Main", "main.gom", &[t], &format!("fn main() {{\n    let _ = string_println(int32_to_string({}::Tr::m(7)));\n    ()\n}}\n", t));
        out.push(Scenario { family: "duplicate-impl-same-file", proj: p, expect: Expect::Reject });
    }
    // 7b. duplicate impls where one header qualifies the trait with the package's own name
    for (fam, first_q, second_q) in [("duplicate-impl-second-self-qualified", false, true), ("duplicate-impl-first-self-qualified", true, false), ("duplicate-impl-both-self-qualified", true, true)] {
        let q = |yes: bool| if yes { "Main::Show" } else { "Show" };
        let mut p = Proj::new();
        p.file(
            "Main",
            "main.gom",
            &[],
            &format!(
                "trait Show {{\n    fn show(Self) -> int32;\n}}\n\nstruct Foo {{ v: int32 }}\n\nimpl {} for Foo {{\n    fn show(self: Foo) -> int32 {{ 1 }}\n}}\n\nimpl {} for Foo {{\n    fn show(self: Foo) -> int32 {{ 2 }}\n}}\n\nfn main() {{\n    let _ = string_println(int32_to_string(Show::show(Foo {{ v: 0 }})));\n    ()\n}}\n",
                q(first_q),
                q(second_q)
            ),
        );
        out.push(Scenario { family: fam, proj: p, expect: Expect::Reject });
    }
    {
        // the duplicate in another file of Main
        let mut p = Proj::new();
        p.file("Main", "a_impl.gom", &[], "impl Show for Foo {\n    fn show(self: Foo) -> int32 { 1 }\n}\n");
        p.file("Main", "main.gom", &[], "trait Show {\n    fn show(Self) -> int32;\n}\n\nstruct Foo { v: int32 }\n\nfn main() {\n    let _ = string_println(int32_to_string(Show::show(Foo { v: 0 })));\n    ()\n}\n");
        p.file("Main", "z_impl.gom", &[], "impl Main::Show for Foo {\n    fn show(self: Foo) -> int32 { 2 }\n}\n");
        out.push(Scenario { family: "duplicate-impl-self-qualified-other-file", proj: p, expect: Expect::Reject });
        // control: a single self-qualified impl is legal
        let mut p = Proj::new();
        p.file("Main", "main.gom", &[], "trait Show {\n    fn show(Self) -> int32;\n}\n\nstruct Foo { v: int32 }\n\nimpl Main::Show for Foo {\n    fn show(self: Foo) -> int32 { 41 }\n}\n\nfn main() {\n    let _ = string_println(int32_to_string(Show::show(Foo { v: 0 })));\n    ()\n}\n");
        out.push(Scenario { family: "self-qualified-impl-control", proj: p, expect: Expect::Accept("41\n".to_string()) });
        // the same in a library package
        let mut p = Proj::new();
        p.file(d, "lib.gom", &[], &format!("trait Show {{\n    fn show(Self) -> int32;\n}}\n\nstruct Foo {{ v: int32 }}\n\nfn mk() -> Foo {{ Foo {{ v: 0 }} }}\n\nimpl Show for Foo {{\n    fn show(self: Foo) -> int32 {{ 1 }}\n}}\n\nimpl {}::Show for Foo {{\n    fn show(self: Foo) -> int32 {{ 2 }}\n}}\n", d));
        p.file("Main", "main.gom", &[d], &format!("fn main() {{\n    let _ = string_println(int32_to_string({}::Show::show({}::mk())));\n    ()\n}}\n", d, d));
        out.push(Scenario { family: "duplicate-impl-self-qualified-in-library", proj: p, expect: Expect::Reject });
    }
    // 7b. a foreign trait for a foreign GENERIC type applied to a local type, and an inherent impl on such an
    // application (the constructor decides ownership, not its arguments); in Main and in a library
    for (where_, owner_is_main) in [("main", true), ("library", false)] {
        for kind in ["trait-impl", "inherent-impl", "nested-argument"] {
            let mut p = Proj::new();
            p.file(d, "lib.gom", &[], "trait Show {\n    fn show(Self) -> int32;\n}\n\nstruct Gb[T] { it: T }\n\nenum Ob[T] { Som(T), Non }\n\nfn f(x: int32) -> int32 { x + 20 }\n");
            let body = match kind {
                "trait-impl" => format!("struct Loc {{ v: int32 }}\n\nimpl {d}::Show for {d}::Gb[Loc] {{\n    fn show(self: {d}::Gb[Loc]) -> int32 {{ self.it.v }}\n}}\n", d = d),
                "inherent-impl" => format!("struct Loc {{ v: int32 }}\n\nimpl {d}::Gb[Loc] {{\n    fn peek(self: {d}::Gb[Loc]) -> int32 {{ self.it.v }}\n}}\n", d = d),
                _ => format!("enum Loc {{ A, B }}\n\nimpl {d}::Show for {d}::Gb[{d}::Ob[Loc]] {{\n    fn show(self: {d}::Gb[{d}::Ob[Loc]]) -> int32 {{ 1 }}\n}}\n", d = d),
            };
            if owner_is_main {
                p.file("Main", "main.gom", &[d], &format!("{}\nfn main() {{\n    let _ = string_println(int32_to_string({}::f(1)));\n    ()\n}}\n", body, d));
            } else {
                p.file(p3, "lib.gom", &[d], &format!("{}\nfn g(x: int32) -> int32 {{ x }}\n", body));
                p.file("Main", "main.gom", &[d, p3], &format!("fn main() {{\n    let _ = string_println(int32_to_string({}::g(1) + {}::f(1)));\n    ()\n}}\n", p3, d));
            }
            out.push(Scenario { family: leak(format!("orphan-impl-foreign-generic-with-local-argument:{}:{}", kind, where_)), proj: p, expect: Expect::Reject });
        }
    }
    // 8. inherent impl on a foreign type
    {
        let mut p = Proj::new();
        type_pkg(&mut p, d, &[], "");
        p.file(p3, "lib.gom", &[d], &format!("impl {}::S {{\n    fn extra(self: {}::S) -> int32 {{ self.v }}\n}}\n\nfn g(x: int32) -> int32 {{ x }}\n", d, d));
        p.file("Main", "main.gom", &[d, p3], &format!("fn main() {{\n    let _ = string_println(int32_to_string({}::g(1)));\n    ()\n}}\n", p3));
        out.push(Scenario { family: "inherent-impl-on-foreign-type", proj: p, expect: Expect::Reject });
    }
    // 9. uses without import, in Main (the package exists and is imported by another library)
    let use_forms: [(&str, String); 21] = [
        // type positions of DECLARATIONS (resolved in an earlier pass than function signatures and bodies): struct field,
        // enum payload, trait method signature, extern function signature, generic struct field (added after a seeded
        // change that gave the declaration pass the union of all files' imports)
        ("struct-field-type", format!("struct Wrapper {{ inner: {}::S }}\n", d)),
        ("enum-payload-type", format!("enum Slot {{ Full({}::S), Empty }}\n", d)),
        ("trait-method-signature-type", format!("trait Uses {{\n    fn take(Self, {}::S) -> int32;\n}}\n", d)),
        ("extern-signature-type", format!("extern \"go\" \"fmt\" \"Sprint\" show_s(x: {}::S) -> string\n", d)),
        ("generic-struct-field-type", format!("struct Gw[T] {{ inner: T, other: {}::E }}\n", d)),
        // constructor / struct patterns as the only qualified names (the scrutinee comes from a function of the importing file)
        ("enum-pattern-only", format!("fn probe() -> int32 {{ match MKE {{ {}::E::A => 1, {}::E::B(k) => k }} }}\n", d, d)),
        ("struct-pattern-only", format!("fn probe() -> int32 {{ match MKD {{ {}::S {{ v: w }} => w }} }}\n", d)),
        // static member paths through a type / trait of the package: the only qualified name in the text
        ("inherent-method-path", format!("fn probe() -> int32 {{ {}::S::get(MKD) }}\n", d)),
        ("inherent-static-path", format!("fn probe() -> int32 {{ {}::S::zero() }}\n", d)),
        ("trait-method-path", format!("fn probe() -> int32 {{ {}::Tr::m(7) }}\n", t)),
        ("let-annotation", format!("fn probe() -> int32 {{ let q: {}::S = MKD; 1 }}\n", d)),
        ("closure-parameter-annotation", format!("fn probe() -> int32 {{ let f = |q: {}::S| 1; 1 }}\n", d)),
        ("call", format!("fn probe() -> int32 {{ {}::f(1) }}\n", d)),
        ("type-in-signature", format!("fn probe(s: {}::S) -> int32 {{ 1 }}\n", d)),
        ("struct-literal", format!("fn probe() -> int32 {{ let s = {}::S {{ v: 1 }}; 1 }}\n", d)),
        ("enum-constructor", format!("fn probe() -> int32 {{ let e = {}::E::B(1); 1 }}\n", d)),
        ("enum-pattern", format!("fn probe(x: int32) -> int32 {{ match x {{ _ => 1 }} }}\nfn probe2() -> int32 {{ match {}::E::A {{ {}::E::A => 1, {}::E::B(k) => k }} }}\n", d, d, d)),
        ("dyn-type", format!("fn probe(x: dyn {}::Tr) -> int32 {{ 1 }}\n", t)),
        ("impl-header", format!("struct Loc {{ v: int32 }}\nimpl {}::Tr for Loc {{\n    fn m(self: Loc) -> int32 {{ self.v }}\n}}\n", t)),
        ("generic-bound", format!("fn probe[X: {}::Tr](x: X) -> int32 {{ 1 }}\n", t)),
        ("struct-pattern", format!("fn probe() -> int32 {{ 1 }}\nfn probe3(a: int32) -> int32 {{ let {}::S {{ v: w }} = {}::mk(a); w }}\n", d, d)),
    ];
    for (form, text) in use_forms.iter() {
        // 9a. in Main, which imports neither (another library imports both, so they are loaded)
        let mut p = Proj::new();
        trait_pkg(&mut p, t, &[], "");
        type_pkg(&mut p, d, &[t], &impl_text(t, d, false, true, k));
        p.file(p3, "lib.gom", &[t, d], &format!("fn g(x: int32) -> int32 {{ x }}\nfn mkd() -> {}::S {{ {}::mk(1) }}\nfn mke() -> {}::E {{ {}::E::A }}\n", d, d, d, d));
        p.file("Main", "main.gom", &[p3], &format!("{}\nfn main() {{\n    let _ = string_println(int32_to_string({}::g(1)));\n    ()\n}}\n", text.replace("MKD", &format!("{}::mkd()", p3)).replace("MKE", &format!("{}::mke()", p3)), p3));
        out.push(Scenario { family: leak(format!("unimported-use-in-main:{}", form)), proj: p, expect: Expect::Reject });
        // 9b. in the second file of a library whose first file imports
        let mut p = Proj::new();
        trait_pkg(&mut p, t, &[], "");
        type_pkg(&mut p, d, &[t], &impl_text(t, d, false, true, k));
        p.file(p3, "a_first.gom", &[t, d], &format!("fn g(x: int32) -> int32 {{ {}::f(x) + {}::f(x) }}\nfn mkd() -> {}::S {{ {}::mk(1) }}\nfn mke() -> {}::E {{ {}::E::A }}\n", t, d, d, d, d, d));
        p.file(p3, "b_second.gom", &[], &text.replace("MKD", "mkd()").replace("MKE", "mke()"));
        p.file("Main", "main.gom", &[p3], &format!("fn main() {{\n    let _ = string_println(int32_to_string({}::g(1)));\n    ()\n}}\n", p3));
        out.push(Scenario { family: leak(format!("unimported-use-in-sibling-file:{}", form)), proj: p, expect: Expect::Reject });
        // 9c. positive control: the same text with the imports present
        let mut p = Proj::new();
        trait_pkg(&mut p, t, &[], "");
        type_pkg(&mut p, d, &[t], &impl_text(t, d, false, true, k));
        p.file(p3, "a_first.gom", &[t, d], &format!("fn g(x: int32) -> int32 {{ {}::f(x) + {}::f(x) }}\nfn mkd() -> {}::S {{ {}::mk(1) }}\nfn mke() -> {}::E {{ {}::E::A }}\n", t, d, d, d, d, d));
        p.file(p3, "b_second.gom", &[t, d], &text.replace("MKD", "mkd()").replace("MKE", "mke()"));
        p.file("Main", "main.gom", &[p3], &format!("fn main() {{\n    let _ = string_println(int32_to_string({}::g(1)));\n    ()\n}}\n", p3));
        out.push(Scenario { family: leak(format!("imported-use-control:{}", form)), proj: p, expect: Expect::Accept("32\n".to_string()) });
    }
    // 10. transitive use without import
    {
        let mut p = Proj::new();
        type_pkg(&mut p, d, &[], "");
        p.file(p3, "lib.gom", &[d], &format!("fn g(x: int32) -> int32 {{ {}::f(x) }}\n", d));
        p.file("Main", "main.gom", &[p3], &format!("fn main() {{\n    let _ = string_println(int32_to_string({}::g(1) + {}::f(1)));\n    ()\n}}\n", p3, d));
        out.push(Scenario { family: "transitive-use-without-import", proj: p, expect: Expect::Reject });
    }
    // 11. missing package
    {
        let mut p = Proj::new();
        type_pkg(&mut p, d, &[], "");
        p.file("Main", "main.gom", &[d, "Nowhere"], &format!("fn main() {{\n    let _ = string_println(int32_to_string({}::f(1)));\n    ()\n}}\n", d));
        out.push(Scenario { family: "import-of-missing-package", proj: p, expect: Expect::Reject });
        let mut p = Proj::new();
        p.file(d, "lib.gom", &["Nowhere"], "fn f(x: int32) -> int32 { x }\n");
        p.file("Main", "main.gom", &[d], &format!("fn main() {{\n    let _ = string_println(int32_to_string({}::f(1)));\n    ()\n}}\n", d));
        out.push(Scenario { family: "library-imports-missing-package", proj: p, expect: Expect::Reject });
    }
    // 12. package declaration differs from the directory
    {
        let mut p = Proj::new();
        p.raw(d, "lib.gom", &format!("package {}\n\nfn f(x: int32) -> int32 {{ x }}\n", p3));
        p.file("Main", "main.gom", &[d], &format!("fn main() {{\n    let _ = string_println(int32_to_string({}::f(1)));\n    ()\n}}\n", d));
        out.push(Scenario { family: "package-declaration-mismatch", proj: p, expect: Expect::Reject });
        let mut p = Proj::new();
        p.file(d, "lib.gom", &[], "fn f(x: int32) -> int32 { x }\n");
        p.raw(d, "other.gom", &format!("package {}\n\nfn g(x: int32) -> int32 {{ x }}\n", p3));
        p.file("Main", "main.gom", &[d], &format!("fn main() {{\n    let _ = string_println(int32_to_string({}::f(1)));\n    ()\n}}\n", d));
        out.push(Scenario { family: "package-declaration-mismatch-second-file", proj: p, expect: Expect::Reject });
        // the stray file declares a name that means something elsewhere in the project: Main (also what a file without a
        // package line belongs to), an existing sibling package, or nothing at all; it sorts before or after the good
        // file; its function is used or not (added after a seeded change that adopted later files declaring Main)
        for (tag, decl) in [("main", "package Main\n\n".to_string()), ("sibling", format!("package {}\n\n", t)), ("no-line", String::new())] {
            for (pos, fname) in [("later", "other.gom"), ("earlier", "aaa.gom")] {
                for used in [false, true] {
                    let mut p = Proj::new();
                    p.file(d, "lib.gom", &[], "fn f(x: int32) -> int32 { x }\n");
                    p.raw(d, fname, &format!("{}fn g(x: int32) -> int32 {{ x + 41 }}\n", decl));
                    if tag == "sibling" {
                        p.file(t, "lib.gom", &[], "fn h(x: int32) -> int32 { x }\n");
                    }
                    let call = if used { format!("{}::g(1)", d) } else { format!("{}::f(1)", d) };
                    let imports: Vec<&str> = if tag == "sibling" { vec![d, t] } else { vec![d] };
                    p.file("Main", "main.gom", &imports, &format!("fn main() {{\n    let _ = string_println(int32_to_string({}));\n    ()\n}}\n", call));
                    let family: &'static str = match (tag, pos) {
                        ("main", "later") => "package-declaration-mismatch-later-file-declares-main",
                        ("main", _) => "package-declaration-mismatch-earlier-file-declares-main",
                        ("sibling", "later") => "package-declaration-mismatch-later-file-declares-sibling",
                        ("sibling", _) => "package-declaration-mismatch-earlier-file-declares-sibling",
                        (_, "later") => "package-declaration-mismatch-later-file-without-package-line",
                        _ => "package-declaration-mismatch-earlier-file-without-package-line",
                    };
                    out.push(Scenario { family, proj: p, expect: Expect::Reject });
                }
            }
        }
    }
    // 13. cycles
    {
        let mut p = Proj::new();
        p.file(d, "lib.gom", &[d], "fn f(x: int32) -> int32 { x }\n");
        p.file("Main", "main.gom", &[d], &format!("fn main() {{\n    let _ = string_println(int32_to_string({}::f(1)));\n    ()\n}}\n", d));
        out.push(Scenario { family: "import-cycle-1", proj: p, expect: Expect::Reject });
        let mut p = Proj::new();
        p.file(d, "lib.gom", &[t], &format!("fn f(x: int32) -> int32 {{ {}::f(x) }}\n", t));
        p.file(t, "lib.gom", &[d], &format!("fn f(x: int32) -> int32 {{ {}::f(x) }}\n", d));
        p.file("Main", "main.gom", &[d], &format!("fn main() {{\n    let _ = string_println(int32_to_string({}::f(1)));\n    ()\n}}\n", d));
        out.push(Scenario { family: "import-cycle-2", proj: p, expect: Expect::Reject });
        let mut p = Proj::new();
        p.file(d, "lib.gom", &[t], "fn f(x: int32) -> int32 { x }\n");
        p.file(t, "lib.gom", &[p3], "fn f(x: int32) -> int32 { x }\n");
        p.file(p3, "lib.gom", &[d], "fn f(x: int32) -> int32 { x }\n");
        p.file("Main", "main.gom", &[d], &format!("fn main() {{\n    let _ = string_println(int32_to_string({}::f(1)));\n    ()\n}}\n", d));
        out.push(Scenario { family: "import-cycle-3", proj: p, expect: Expect::Reject });
    }
    // 14. equally named types in two packages, each with an impl of the same trait
    {
        let mut p = Proj::new();
        trait_pkg(&mut p, t, &[], "");
        type_pkg(&mut p, d, &[t], &impl_text(t, d, false, true, k));
        p.file(p3, "lib.gom", &[t], &format!("struct S {{ v: int32 }}\n\nfn mk(v: int32) -> S {{ S {{ v: v }} }}\n\nfn f(x: int32) -> int32 {{ x + 30 }}\n\n{}", impl_text(t, p3, false, true, k + 7)));
        p.file(
            "Main",
            "main.gom",
            &[t, d, p3],
            &format!("fn main() {{\n    let _ = string_println(int32_to_string({t}::Tr::m({d}::mk(5))));\n    let _ = string_println(int32_to_string({t}::Tr::m({p}::mk(5))));\n    let _ = string_println(int32_to_string({t}::f(1) * 10000 + {d}::f(1) * 100 + {p}::f(1)));\n    ()\n}}\n", t = t, d = d, p = p3),
        );
        out.push(Scenario { family: "same-type-name-in-two-packages", proj: p, expect: Expect::Accept(format!("{}\n{}\n{}\n", 5 + k, 5 + k + 7, 11 * 10000 + 21 * 100 + 31)) });
    }
    out
}

fn leak(s: String) -> &'static str {
    Box::leak(s.into_boxed_str())
}

/// decoy packages: same item names, own impls; imported by Main but unused
fn add_decoys(p: &Proj, rng: &mut Rng) -> Option<Proj> {
    let mut q = p.clone();
    let used: Vec<String> = p.files.iter().filter_map(|(f, _)| f.parent().map(|d| d.display().to_string())).collect();
    let cands: Vec<&str> = NAMES.iter().copied().filter(|n| !used.contains(&n.to_string())).collect();
    if cands.len() < 2 {
        return None;
    }
    let a = *rng.pick_ref(&cands);
    let b = *rng.pick_ref(&cands.iter().copied().filter(|c| *c != a).collect::<Vec<_>>());
    q.file(a, "lib.gom", &[], "trait Tr {\n    fn m(Self) -> int32;\n}\n\nstruct S { v: int32 }\n\nimpl Tr for S {\n    fn m(self: S) -> int32 { 0 - 1 }\n}\n\nimpl Tr for int32 {\n    fn m(self: int32) -> int32 { 0 - 2 }\n}\n\nfn mk(v: int32) -> S { S { v: v } }\n\nfn f(x: int32) -> int32 { 0 - 3 }\n\nfn g(x: int32) -> int32 { 0 - 4 }\n");
    q.file(b, "lib.gom", &[a], &format!("struct S {{ v: int32 }}\n\nimpl {}::Tr for S {{\n    fn m(self: S) -> int32 {{ 0 - 5 }}\n}}\n\nfn mk(v: int32) -> S {{ S {{ v: v }} }}\n\nfn f(x: int32) -> int32 {{ 0 - 6 }}\n", a));
    // add the imports to Main's file(s)
    for (path, text) in q.files.iter_mut() {
        if path.parent().map_or(true, |d| d.as_os_str().is_empty()) && text.starts_with("package Main") {
            *text = text.replacen("package Main\n", &format!("package Main\nimport {}\nimport {}\n", a, b), 1);
        }
    }
    Some(q)
}

fn run_go(go: &str) -> Result<(String, String), String> {
    let gp = goexec::parse(go);
    match goexec::vet(&gp) {
        Vet::Accept => {}
        Vet::Unsupported(u) => return Err(format!("vet unsupported: {}", u)),
        Vet::Reject(errs) => return Ok((format!("<invalid go: [{}] {}>", errs[0].0, errs[0].2), "invalid-go".into())),
    }
    let r = goexec::run(&gp, 5_000_000, gomini::Sched::Deterministic);
    match r.term {
        Term::Ok => Ok((r.stdout, "ok".into())),
        Term::Fail(k) => Ok((r.stdout, format!("fail:{}", k))),
        Term::Budget => Err("budget".into()),
        Term::Unsupported(u) => Err(format!("run unsupported: {}", u)),
    }
}

/// returns Some(stdout) when accepted and correct
fn judge(c: &mut Case, label: &str, sc_family: &str, proj: &Proj, expect: &Expect, root: &std::path::Path, variant: &str) -> Option<String> {
    let _ = std::fs::remove_dir_all(root);
    let order: Vec<usize> = (0..proj.files.len()).collect();
    if projgen::materialize(root, &proj.files, &order).is_err() {
        c.inconclusive("cannot materialise project");
        return None;
    }
    let srcs: String = proj.files.iter().map(|(p, t)| format!("// ---- {}\n{}\n", p.display(), t)).collect();
    runner::note_input(&srcs);
    c.count("scenarios", 1);
    let whole = match runner::guard(|| projdrv::observe_whole(root)) {
        Ok(o) => o,
        Err(p) => {
            c.violation(format!("C16:crash:{}", sc_family), format!("{} crashes the compiler at {}", sc_family, p.site), json!({"label": label, "family": sc_family, "variant": variant, "sources": srcs}));
            return None;
        }
    };
    let ok = whole.get("whole/result").map_or(false, |r| r == "ok");
    let diags = whole.get("whole/diagnostics").cloned().unwrap_or_default();
    match expect {
        Expect::Reject => {
            if ok {
                // what does the accepted program do? (evidence for the report)
                let behaviour = whole.get("whole/dump/go").map(|g| run_go(g));
                c.violation(
                    format!("C16:accepted:{}", sc_family),
                    format!("a project that must be rejected ({}) is accepted", sc_family),
                    json!({"label": label, "family": sc_family, "variant": variant, "behaviour": format!("{:?}", behaviour), "sources": srcs}),
                );
            } else if {
                // rejected only by internal errors (no diagnostic about the project itself)
                let lines: Vec<&str> = diags.lines().filter(|l| l.starts_with("Error|")).collect();
                !lines.is_empty() && lines.iter().all(|l| l.contains("Internal error") || l.contains("ICE"))
            } {
                c.violation(format!("C16:internal-error:{}", sc_family), format!("{} is rejected by an internal error: {}", sc_family, util::truncate(&diags, 200)), json!({"label": label, "family": sc_family, "sources": srcs, "diagnostics": diags}));
            } else {
                c.count("rejected_as_required", 1);
                c.count(&format!("rejected:{}", sc_family.split(':').next().unwrap_or(sc_family)), 1);
                c.nontrivial(hash_str(&srcs));
            }
            None
        }
        Expect::Accept(exp) => {
            if !ok {
                c.violation(
                    format!("C16:rejected:{}", sc_family),
                    format!("a legal project ({}) is rejected: {}", sc_family, util::truncate(&diags, 200)),
                    json!({"label": label, "family": sc_family, "variant": variant, "diagnostics": diags, "sources": srcs}),
                );
                return None;
            }
            let go = whole.get("whole/dump/go").cloned().unwrap_or_default();
            match run_go(&go) {
                Err(e) => {
                    c.inconclusive(format!("gomini: {}", e));
                    None
                }
                Ok((out, term)) => {
                    if term != "ok" || out != *exp {
                        c.violation(
                            format!("C16:wrong-meaning:{}:{}", sc_family, if term == "ok" { "other-output" } else { term.split(':').next().unwrap_or("fails") }),
                            format!("{} ({}): prints {:?} ({}), expected {:?}", sc_family, variant, util::truncate(&out, 100), term, exp),
                            json!({"label": label, "family": sc_family, "variant": variant, "expected": exp, "got": out, "term": term, "sources": srcs}),
                        );
                        return None;
                    }
                    c.count("accepted_and_correct", 1);
                    c.nontrivial(hash_str(&srcs));
                    Some(out)
                }
            }
        }
    }
}

fn run(ctx: &mut Ctx) {
    let tier = ctx.tier;
    let seed = ctx.seed;
    if ctx.replay_input.is_some() {
        println!("replay: the replay file stores the project sources");
        return;
    }
    let scratch = capi::scratch_dir().clone();
    let rounds = tier.pickn(8u64, 160u64) / ctx.nshards as u64 + 1;
    for r in 0..rounds {
        let mut rng = Rng::keyed(seed, "c16", ctx.shard as u64, r);
        let scs = scenarios(&mut rng);
        for (k, sc) in scs.iter().enumerate() {
            let root = scratch.join(format!("c16-{}-{}-{}", ctx.shard, r, k));
            let label = format!("{}/{}/{}", sc.family, ctx.shard, r);
            ctx.case(&label.clone(), |c| {
                let base = judge(c, &label, sc.family, &sc.proj, &sc.expect, &root, "plain");
                // the same project with decoy packages loaded and imported
                if let Some(q) = add_decoys(&sc.proj, &mut rng) {
                    let with = judge(c, &label, sc.family, &q, &sc.expect, &root, "with decoy packages");
                    if base.is_some() && with == base {
                        c.count("decoy_variants_agree", 1);
                    }
                }
                if r == 0 && ctx_sample_family(sc.family) {
                    c.sample(json!({"workload": sc.family, "expect": match &sc.expect { Expect::Accept(o) => format!("accept, prints {:?}", o), Expect::Reject => "reject".to_string() }}));
                }
            });
            let _ = std::fs::remove_dir_all(&root);
        }
    }
    capi::cleanup_scratch();
}

fn ctx_sample_family(f: &str) -> bool {
    matches!(f, "impl-in-type-package" | "orphan-impl-in-third-package" | "duplicate-impl-two-files" | "import-cycle-2" | "same-type-name-in-two-packages" | "transitive-use-without-import")
}
