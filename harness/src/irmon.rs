//! Invariant monitors over the IRs a successful compile exposes (quiescent-point checks).
//! * residue: no type parameter, inference variable, generic type application or wildcard array
//!   length after monomorphisation (Mono, Lift, ANF);
//! * names: no two functions of one stage share a name;
//! * ANF typing: every variable use is in scope of a binder (parameter / let / top-level function /
//!   runtime builtin) of the same type; calls agree with the callee's function type; conditions are
//!   bool; branches have the type of the whole; the function body has the declared result type.
use compiler::anf::{self, AExpr, CExpr, ImmExpr};
use compiler::pipeline::pipeline::Compilation;
use compiler::tast::Ty;
use std::collections::{HashMap, HashSet};

pub struct Finding {
    pub sig: String,
    pub summary: String,
}

#[derive(Default)]
pub struct IrStats {
    pub fns: u64,
    pub nodes: u64,
    pub var_uses: u64,
    pub calls: u64,
}

fn ty_residue(t: &Ty) -> Option<&'static str> {
    match t {
        Ty::TVar(_) => Some("inference-variable"),
        Ty::TStruct { name } | Ty::TEnum { name } if name == "Self" => Some("unsubstituted-Self"),
        Ty::TParam { .. } => Some("type-parameter"),
        Ty::TApp { ty, args } => {
            if !args.is_empty() {
                return Some("generic-type-application");
            }
            ty_residue(ty)
        }
        Ty::TTuple { typs } => typs.iter().find_map(ty_residue),
        Ty::TArray { len, elem } => {
            if *len == compiler::tast::ARRAY_WILDCARD_LEN {
                return Some("wildcard-array-length");
            }
            ty_residue(elem)
        }
        Ty::TVec { elem } | Ty::TRef { elem } => ty_residue(elem),
        Ty::TFunc { params, ret_ty } => params.iter().find_map(ty_residue).or_else(|| ty_residue(ret_ty)),
        _ => None,
    }
}

fn check_sig(stage: &str, name: &str, params: &[(String, Ty)], ret: &Ty, out: &mut Vec<Finding>) {
    for (p, t) in params {
        if let Some(r) = ty_residue(t) {
            out.push(Finding { sig: format!("residue:{}:{}:param", stage, r), summary: format!("{}: parameter {} of {} has type {:?} ({} left after monomorphisation)", stage, p, name, t, r) });
        }
    }
    if let Some(r) = ty_residue(ret) {
        out.push(Finding { sig: format!("residue:{}:{}:result", stage, r), summary: format!("{}: result type of {} is {:?} ({} left after monomorphisation)", stage, name, ret, r) });
    }
}

fn dup_names<'a>(stage: &str, names: impl Iterator<Item = &'a String>, out: &mut Vec<Finding>) {
    let mut seen = HashSet::new();
    for n in names {
        if !seen.insert(n.clone()) {
            out.push(Finding { sig: format!("duplicate-function:{}", stage), summary: format!("{}: two functions are named {}", stage, n) });
        }
    }
}

/// residue scan of a whole function body through its Debug rendering (any type anywhere in the body)
fn debug_residue(stage: &str, name: &str, dbg: &str, out: &mut Vec<Finding>) {
    // (the wildcard array length legitimately occurs in the types of the polymorphic array builtins
    // referenced from bodies; it is checked on let-bound values in the ANF walk instead)
    for (needle, what) in [("TParam {", "type-parameter"), ("TVar(", "inference-variable"), ("TStruct(Self)", "unsubstituted-Self"), ("TEnum(Self)", "unsubstituted-Self")] {
        if dbg.contains(needle) {
            out.push(Finding { sig: format!("residue:{}:{}:body", stage, what), summary: format!("{}: the body of {} mentions a {} after monomorphisation", stage, name, what) });
        }
    }
}

pub fn residue_and_names(c: &Compilation, stats: &mut IrStats) -> Vec<Finding> {
    let mut out = Vec::new();
    dup_names("mono", c.mono.toplevels.iter().map(|f| &f.name), &mut out);
    for f in &c.mono.toplevels {
        stats.fns += 1;
        check_sig("mono", &f.name, &f.params, &f.ret_ty, &mut out);
        debug_residue("mono", &f.name, &format!("{:?}", f.body), &mut out);
    }
    dup_names("lift", c.lambda.toplevels.iter().map(|f| &f.name), &mut out);
    for f in &c.lambda.toplevels {
        check_sig("lift", &f.name, &f.params, &f.ret_ty, &mut out);
        debug_residue("lift", &f.name, &format!("{:?}", f.body), &mut out);
    }
    dup_names("anf", c.anf.toplevels.iter().map(|f| &f.name), &mut out);
    for f in &c.anf.toplevels {
        check_sig("anf", &f.name, &f.params, &f.ret_ty, &mut out);
    }
    out
}

// ------------------------------------------------------------------ ANF typing

struct AnfCk<'a> {
    globals: &'a HashMap<String, Ty>,
    externs: &'a HashSet<String>,
    out: Vec<Finding>,
    fname: String,
    stats: &'a mut IrStats,
}

fn imm_ty(i: &ImmExpr) -> &Ty {
    match i {
        ImmExpr::ImmVar { ty, .. } | ImmExpr::ImmPrim { ty, .. } | ImmExpr::ImmTag { ty, .. } => ty,
    }
}

fn is_runtime_name(n: &str) -> bool {
    const B: &[&str] = &[
        "string_println", "string_print", "unit_to_string", "bool_to_string", "bool_to_json", "json_escape_string", "string_len", "string_get", "missing",
        "int8_to_string", "int16_to_string", "int32_to_string", "int64_to_string", "uint8_to_string", "uint16_to_string", "uint32_to_string", "uint64_to_string",
        "float32_to_string", "float64_to_string", "array_get", "array_set", "ref", "ref_get", "ref_set", "vec_new", "vec_push", "vec_get", "vec_len",
    ];
    B.contains(&n)
}

impl<'a> AnfCk<'a> {
    fn bad(&mut self, sig: &str, summary: String) {
        if self.out.len() < 6 {
            self.out.push(Finding { sig: format!("anf-typing:{}", sig), summary: format!("ANF of {}: {}", self.fname, summary) });
        }
    }

    fn imm(&mut self, i: &ImmExpr, scope: &HashMap<String, Ty>) {
        self.stats.nodes += 1;
        if let ImmExpr::ImmVar { name, ty } = i {
            self.stats.var_uses += 1;
            if let Some(bt) = scope.get(name) {
                if bt != ty {
                    self.bad("use-type-differs-from-binder", format!("variable {} is used at type {:?} but bound at type {:?}", name, ty, bt));
                }
            } else if self.globals.contains_key(name) || self.externs.contains(name) {
                // top-level function used as a value or callee (lifted closures are typed as their environment struct)
            } else if !is_runtime_name(name) && !name.contains("::") && !name.starts_with("trait_impl#") && !name.starts_with("inherent#") {
                self.bad("unbound-variable", format!("variable {} is used without an enclosing binder", name));
            }
        }
    }

    fn cexpr(&mut self, e: &CExpr, scope: &HashMap<String, Ty>) {
        self.stats.nodes += 1;
        match e {
            CExpr::CImm { imm } => self.imm(imm, scope),
            CExpr::EConstr { args, .. } => args.iter().for_each(|a| self.imm(a, scope)),
            CExpr::ETuple { items, ty } => {
                items.iter().for_each(|a| self.imm(a, scope));
                if let Ty::TTuple { typs } = ty {
                    if typs.len() != items.len() {
                        self.bad("tuple-arity", format!("tuple expression has {} items but type {:?}", items.len(), ty));
                    } else {
                        for (it, t) in items.iter().zip(typs.iter()) {
                            if imm_ty(it) != t {
                                self.bad("tuple-item-type", format!("tuple item of type {:?} at component type {:?}", imm_ty(it), t));
                            }
                        }
                    }
                } else {
                    self.bad("tuple-type", format!("tuple expression typed {:?}", ty));
                }
            }
            CExpr::EArray { items, ty } => {
                items.iter().for_each(|a| self.imm(a, scope));
                if let Ty::TArray { len, elem } = ty {
                    if *len != items.len() {
                        self.bad("array-length", format!("array literal with {} items typed {:?}", items.len(), ty));
                    }
                    for it in items {
                        if imm_ty(it) != &**elem {
                            self.bad("array-item-type", format!("array item of type {:?} in {:?}", imm_ty(it), ty));
                        }
                    }
                }
            }
            CExpr::EMatch { expr, arms, default, ty } => {
                self.imm(expr, scope);
                for a in arms {
                    self.aexpr(&a.body, scope, Some(ty));
                }
                if let Some(d) = default {
                    self.aexpr(d, scope, Some(ty));
                }
            }
            CExpr::EIf { cond, then, else_, ty } => {
                self.imm(cond, scope);
                if imm_ty(cond) != &Ty::TBool {
                    self.bad("if-condition-not-bool", format!("if condition has type {:?}", imm_ty(cond)));
                }
                self.aexpr(then, scope, Some(ty));
                self.aexpr(else_, scope, Some(ty));
            }
            CExpr::EWhile { cond, body, .. } => {
                self.aexpr(cond, scope, Some(&Ty::TBool));
                self.aexpr(body, scope, None);
            }
            CExpr::EConstrGet { expr, .. } => self.imm(expr, scope),
            CExpr::EUnary { expr, .. } => self.imm(expr, scope),
            CExpr::EBinary { lhs, rhs, .. } => {
                self.imm(lhs, scope);
                self.imm(rhs, scope);
                if imm_ty(lhs) != imm_ty(rhs) {
                    self.bad("binary-operand-types", format!("binary operator applied to {:?} and {:?}", imm_ty(lhs), imm_ty(rhs)));
                }
            }
            CExpr::ECall { func, args, ty } => {
                self.stats.calls += 1;
                self.imm(func, scope);
                args.iter().for_each(|a| self.imm(a, scope));
                if let Ty::TFunc { params, ret_ty } = imm_ty(func) {
                    let fname = if let ImmExpr::ImmVar { name, .. } = func { name.as_str() } else { "" };
                    // array / ref / vec builtins are typed with wildcard lengths and per-call instances: skip them
                    let poly_builtin = matches!(fname, "array_get" | "array_set" | "ref" | "ref_get" | "ref_set" | "vec_new" | "vec_push" | "vec_get" | "vec_len" | "missing");
                    if !poly_builtin {
                        if params.len() != args.len() {
                            self.bad("call-arity", format!("call of {} with {} arguments but {} parameters", fname, args.len(), params.len()));
                        } else {
                            for (k, (a, p)) in args.iter().zip(params.iter()).enumerate() {
                                if imm_ty(a) != p {
                                    self.bad("call-argument-type", format!("argument {} of {} has type {:?} but the parameter is {:?}", k, fname, imm_ty(a), p));
                                }
                            }
                        }
                        if &**ret_ty != ty {
                            self.bad("call-result-type", format!("call of {} typed {:?} but the callee returns {:?}", fname, ty, ret_ty));
                        }
                    }
                }
            }
            CExpr::EToDyn { expr, .. } => self.imm(expr, scope),
            CExpr::EDynCall { receiver, args, .. } => {
                self.imm(receiver, scope);
                args.iter().for_each(|a| self.imm(a, scope));
            }
            CExpr::EGo { closure, .. } => self.imm(closure, scope),
            CExpr::EProj { tuple, index, ty } => {
                self.imm(tuple, scope);
                if let Ty::TTuple { typs } = imm_ty(tuple) {
                    match typs.get(*index) {
                        Some(t) if t == ty => {}
                        Some(t) => self.bad("projection-type", format!("projection .{} typed {:?} but the component is {:?}", index, ty, t)),
                        None => self.bad("projection-index", format!("projection .{} out of a {}-tuple", index, typs.len())),
                    }
                }
            }
        }
    }

    fn aexpr(&mut self, e: &AExpr, scope: &HashMap<String, Ty>, expect: Option<&Ty>) {
        match e {
            AExpr::ACExpr { expr } => {
                self.cexpr(expr, scope);
                if let Some(t) = expect {
                    let got = AExpr::ACExpr { expr: expr.clone() }.get_ty();
                    // `missing` arms are typed at the match type by construction
                    if &got != t {
                        self.bad("branch-type", format!("a branch / body of type {:?} where {:?} is expected", got, t));
                    }
                }
            }
            AExpr::ALet { name, value, body, .. } => {
                self.cexpr(value, scope);
                let vt = AExpr::ACExpr { expr: (**value).clone() }.get_ty();
                if let Some(r) = ty_residue(&vt) {
                    self.bad(&format!("let-bound-residue:{}", r), format!("let-bound variable {} has type {:?} ({})", name, vt, r));
                }
                let mut inner = scope.clone();
                inner.insert(name.clone(), vt);
                self.aexpr(body, &inner, expect);
            }
        }
    }
}

pub fn anf_typing(c: &Compilation, stats: &mut IrStats) -> Vec<Finding> {
    let file: &anf::File = &c.anf;
    let externs: HashSet<String> = c.genv.value_env.extern_funcs.keys().cloned().collect();
    let mut globals: HashMap<String, Ty> = HashMap::new();
    for f in &file.toplevels {
        globals.insert(f.name.clone(), Ty::TFunc { params: f.params.iter().map(|(_, t)| t.clone()).collect(), ret_ty: Box::new(f.ret_ty.clone()) });
    }
    let mut all = Vec::new();
    for f in &file.toplevels {
        let mut scope: HashMap<String, Ty> = HashMap::new();
        for (p, t) in &f.params {
            scope.insert(p.clone(), t.clone());
        }
        let mut ck = AnfCk { globals: &globals, externs: &externs, out: Vec::new(), fname: f.name.clone(), stats };
        let ret = f.ret_ty.clone();
        ck.aexpr(&f.body, &scope, Some(&ret));
        all.extend(ck.out);
    }
    all
}
