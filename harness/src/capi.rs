//! Thin wrappers over the compiler's public entry points.
use compiler::pipeline::pipeline::{Compilation, CompilationError, compile};
use std::path::PathBuf;
use std::sync::OnceLock;

static SCRATCH: OnceLock<PathBuf> = OnceLock::new();

/// A per-process empty directory used as the package root for single-file compiles.
pub fn scratch_dir() -> &'static PathBuf {
    SCRATCH.get_or_init(|| {
        let base = crate::util::scratch_base();
        let d = base.join(format!("gv-{}-{}", std::process::id(), crate::util::hex64(now_nanos())));
        std::fs::create_dir_all(&d).expect("create scratch");
        d
    })
}

pub fn cleanup_scratch() {
    if let Some(d) = SCRATCH.get() {
        let _ = std::fs::remove_dir_all(d);
    }
}

fn now_nanos() -> u64 {
    std::time::SystemTime::now()
        .duration_since(std::time::UNIX_EPOCH)
        .map(|d| d.as_nanos() as u64)
        .unwrap_or(0)
}

/// Empty sub-directory `single/` under the scratch dir: compile(path, src) lists it for sibling .gom files.
pub fn single_root() -> PathBuf {
    let d = scratch_dir().join("single");
    if !d.is_dir() {
        std::fs::create_dir_all(&d).expect("create single root");
    }
    d
}

pub fn compile_single(src: &str) -> Result<Compilation, CompilationError> {
    let p = single_root().join("main.gom");
    compile(&p, src)
}

/// The separate-compilation path for a single-file program: `build` package Main from a file on disk, write the
/// artifacts, read the core back and `link` it (fresh name counters at link time, as the CLI does in a second process).
/// Ok(linked Go text) / Err(diagnostics text).
pub fn link_single(src: &str) -> Result<String, String> {
    use compiler::pipeline::separate;
    let root = scratch_dir().join(format!("link-single-{}", crate::util::hex64(crate::util::hash_str(src))));
    let _ = std::fs::remove_dir_all(&root);
    let art = root.join(".artifacts");
    if std::fs::create_dir_all(&art).is_err() || std::fs::write(root.join("main.gom"), src).is_err() {
        return Err("could not materialise the program".into());
    }
    let res = (|| {
        let unit = separate::build_package(separate::PackageInputs {
            package: "Main".to_string(),
            input_files: vec![root.join("main.gom")],
            interface_paths: vec![art.clone()],
        })
        .map_err(|e| err_messages(&e).join("; "))?;
        let cjson = serde_json::to_string_pretty(&unit).map_err(|e| e.to_string())?;
        let ijson = serde_json::to_string_pretty(&unit.interface).map_err(|e| e.to_string())?;
        std::fs::write(art.join("Main.interface"), ijson).map_err(|e| e.to_string())?;
        std::fs::write(art.join("Main.core"), cjson).map_err(|e| e.to_string())?;
        let core = separate::read_core(&art.join("Main.core")).map_err(|e| err_messages(&e).join("; "))?;
        let l = separate::link_cores(vec![core]).map_err(|e| err_messages(&e).join("; "))?;
        Ok(l.go.to_pretty(&l.goenv, 120))
    })();
    let _ = std::fs::remove_dir_all(&root);
    res
}

pub fn go_text(c: &Compilation) -> String {
    c.go.to_pretty(&c.goenv, 120)
}

pub fn err_stage(e: &CompilationError) -> &'static str {
    match e {
        CompilationError::Parser { .. } => "parser",
        CompilationError::Lower { .. } => "lower",
        CompilationError::Typer { .. } => "typer",
        CompilationError::Compile { .. } => "compile",
    }
}

pub fn err_messages(e: &CompilationError) -> Vec<String> {
    e.diagnostics().iter().map(|d| d.message().to_string()).collect()
}

/// All eight stage dumps as (label, text), mirroring the CLI's --dump-* flags.
pub fn dumps(c: &Compilation) -> Vec<(&'static str, String)> {
    let w = 120;
    let ctx = compiler::pprint::hir_pprint::HirPrintCtx::new(&c.hir_table);
    vec![
        ("ast", c.ast.to_pretty(w)),
        ("hir", c.hir.to_pretty(&ctx, w)),
        ("tast", c.tast.to_pretty(&c.genv, w)),
        ("core", c.core.to_pretty(&c.genv, w)),
        ("mono", c.mono.to_pretty(&c.monoenv, w)),
        ("lift", c.lambda.to_pretty(&c.liftenv, w)),
        ("anf", c.anf.to_pretty(&c.anfenv, w)),
        ("go", c.go.to_pretty(&c.goenv, w)),
    ]
}
